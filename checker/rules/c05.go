package rules

import (
	"fmt"
	"go/token"
	"strconv"
	"strings"

	"adgverif/an"

	"golang.org/x/tools/go/ssa"
)

func init() {
	register(&Property{ID: "C05", Technique: "decision-tree extraction (abstract interpretation) of the ECS cache handler, its lookup, the option rewriter and the request-information location step, with effect/provenance tables; who-may-write rule for the upstream subnet",
		Run: runC05, Explain: an.Explanation{
			Text: "R1: the decision tree of the ECS cache handler: for a client that opted out (zero-length option) the upstream subnet " +
				"is the zero prefix and GeoIP is not consulted; otherwise it is the subnet GeoIP assigns to the location of the " +
				"request (locFromReq) for the request's family; on a cache hit the next stage is not called; on a miss the message " +
				"handed to the next stage is a clone of the request that went through setECS with exactly that subnet and scope 0, " +
				"never the request itself. R2: cacheRequest.subnet is written only from SubnetByLocation or ZeroPrefix. R3: the " +
				"lookup consults the no-ECS cache first and the ECS cache only for clients that did not opt out, each with the key " +
				"of its own kind. R4: the response carries an ECS option exactly when the request did (ri.ECS != nil), written by " +
				"setECS(resp, client's ECS, family, isResp=true) on the hit and on the miss path; setECS as response uses scope = " +
				"source prefix length, as request scope 0, and replaces every pre-existing subnet option. R5: the request " +
				"information keeps an ECS record exactly when the decoded option's subnet is not the zero value (so a /0 opt-out is " +
				"kept), and a malformed option is answered with FORMERR without calling the next stage.",
			NotCovered: "the GeoIP data itself and the scope arithmetic of upstream answers; that the upstream honours the option.",
			Rules: map[string]string{"C05-R28": "the options copied from the request into a response without an OPT record are the frozen set (table shared with C08-R5): the client-subnet option is never echoed by the server itself, with a scope it did not compute", "C05-R26": "SubnetByLocation reads the IPv4 tables only on the IPv4 arm of its family switch and the IPv6 tables only on the IPv6 arm: a client is never given a subnet, and with it the cache entries, of the other address family", "C05-R27": "the pooled OPT record is emptied before the options of the cloned record are appended (shared with C07-R1): a client that sent no client-subnet option is not handed the subnet left in the pooled record by another client's response", "C05-R25": "cacheConfig.validate accepts exactly the two spellings of the cache type that cacheConfig.toInternal tells apart (simple, ecs): a configuration that validation lets through never falls into the other branch of the conversion and loses the ECS cache (and with it the rewriting of the client subnet)", "C05-R24": "truncate removes the answers of a truncated response and nothing else (shared with C08-R10): the OPT record with the echoed client subnet survives truncation", "C05-R23": "the cloner re-initialises every section of the pooled message, the additional section included, on every path (shared with C07-R1): a clone served from the ECS cache carries no OPT record (and no client subnet) of the response the object held before; R24: truncate empties the answer section only and keeps the OPT record with the echoed ECS option (table shared with C08-R10)", "C05-R22": "the plain forwarder's Exchange returns only a response that passed validation for this request (table shared with C17-R4): no stale datagram answering another client's query reaches the subnet-keyed cache", "C05-R21": "the GeoIP scanner asks replaceSubnet for the desired length of the network's own family: the IPv4 constant where the network's address Is4, the IPv6 constant otherwise, on every path into the call", "C05-R20": "an OPT record taken from the cloner's pool starts without options (shared with C08-R6): no client-subnet option of an earlier message is left in a constructed answer", "C05-R19": "geoip.replaceSubnet never selects a network narrower than the desired length (/24, /56), whether or not the key already has one", "C05-R18": "UpstreamPlain.processConn closes the connection after any failed exchange and pools it only after a successful one (shared with C17-R4)", "C05-R17": "dnsmsg.ecsData: the option's address is converted in the family the option declares (netutil.IPToAddr with that family), and the option is accepted exactly for family 1 or 2, a convertible address, a valid source length (the bits-beyond-the-prefix test is explored but not pinned by the table)", "C05-R16": "respIsECSDependent: a non-zero scope is ignored only when the question name itself is listed in FakeECSFQDNs (exact lookup of the name)", "C05-R15": "padAnswer only appends to the response's options, so the client-subnet echo survives padding on encrypted transports (table shared with C08-R5)", "C05-R14": "a query with more than one OPT record is answered with FORMERR and never reaches the handlers, which read and replace the client subnet in the last OPT record only (accept-gate table shared with C01-R1; table of the counting helper over additional sections of up to three records)", "C05-RC": "class rules (error chains, shadowed results, character classes, crossed arguments, pool constructors, array pools, loop completeness, loop-carried buffers, replacing setters, complete clones, Grow arithmetic, pooled-buffer escape, sorted searches, fresh decode targets, per-iteration objects, whole-message copies, codec guards) over the packages this property rests on", "C05-R13": "caches store and hand out clones (shared with C07-R4)", "C05-R12": "no slice built on a pooled byte buffer that the function gives back is stored into a longer-lived object (expected count today: zero Get/Put pairs in this code; positive instances are the seeded changes)", "C05-R11": "every maxminddb Lookup / Network call decodes into a zero value created for that call (the decoder leaves absent fields untouched)", "C05-R10": "geoip.File.Refresh: no path from installing new databases to the return skips clearing either lookup cache", "C05-R1": "handler decision tree and upstream-subnet provenance", "C05-R2": "who writes cacheRequest.subnet",
				"C05-R3": "lookup order and opt-out gate", "C05-R4": "echo gates and setECS table", "C05-R5": "ECS record / FORMERR tables"},
		}})
}

func runC05(c *an.Ctx) {
	c.Floor("C05-R28", 1)
	c.Borrow("C05-R28", runC08, func(o an.Obligation) bool { return o.Rule == "C08-R5" })
	c.Floor("C05-R26", 4)
	if n := c05FamilyFields(c, "C05-R26"); n < 4 {
		c.Und("C05-R26", "per-family table reads", 0, "%d reads found, 4 expected", n)
	}
	c.Floor("C05-R27", 1)
	c.Borrow("C05-R27", runC07, func(o an.Obligation) bool { return o.Rule == "C07-R1" && strings.Contains(o.Key, "optCloner") })
	// ---- R25: validation and conversion of the cache type agree
	c.Floor("C05-R25", 2)
	for _, fk := range []string{"cmd.(*cacheConfig).validate", "cmd.(*cacheConfig).toInternal"} {
		k := fk
		decide(c, "C05-R25", k, an.DecideCfg{
			Dom: an.Domain{"p0.Type": an.Strs("simple", "ecs", "ECS", "Simple", "other"), "p0.Size": an.Ints(0, 10), "p0.ECSSize": an.Ints(10), "ttlerr": an.Bools},
			OnCall: func(it *an.Interp, name string, args []an.AV) (an.AV, bool) {
				switch {
				case name == "fmt.Errorf", strings.HasPrefix(name, "cmd.newNegativeError"), strings.HasPrefix(name, "cmd.newNotPositiveError"):
					return an.NonNil("verr"), true
				case strings.HasSuffix(name, "ttlOverride).validate"), strings.HasSuffix(name, "ttlOverrideConfig).validate"), strings.HasPrefix(name, "cmd.validateProp"):
					if it.Feature("ttlerr").IsTrue() {
						return an.NonNil("ttlErr"), true
					}
					return an.Nil(), true
				}
				return an.AV{}, false
			},
			Expect: func(f an.Features, o an.AOutcome) string {
				typ := f.S("p0.Type")
				exact := typ == "simple" || typ == "ecs"
				if strings.HasSuffix(k, "validate") {
					if len(o.Ret) != 1 {
						return "an error result"
					}
					if !exact {
						if o.Ret[0].Kind != an.KNil {
							return ""
						}
						return "an error for the cache type " + strconv.Quote(typ) + " (only the exact spellings simple and ecs are converted)"
					}
					return ""
				}
				// toInternal: decided for the values validation accepts
				if !exact {
					return ""
				}
				wantT := "CacheTypeECS"
				switch {
				case f.I("p0.Size") == 0:
					wantT = "CacheTypeNone"
				case typ == "simple":
					wantT = "CacheTypeSimple"
				}
				got := ""
				for name, v := range o.Mem {
					if strings.HasSuffix(name, ".Type") && strings.HasPrefix(name, "local#") {
						got = v.String()
					}
				}
				wantV := fmt.Sprint(cacheTypeValue(c, wantT))
				if got == wantV {
					return ""
				}
				return "cache type " + wantT + " (" + wantV + ") for type " + typ + " and size " + fmt.Sprint(f.I("p0.Size")) + "; got " + got
			},
		})
	}
	// ---- R23: pooled clones start with an empty additional section (shared with C07-R1); R24: truncation keeps the OPT record (shared with C08-R10)
	c.Floor("C05-R23", 1)
	c.Borrow("C05-R23", runC07, func(o an.Obligation) bool { return o.Rule == "C07-R1" && strings.Contains(o.Key, "Cloner).Clone") })
	c.Floor("C05-R24", 1)
	c.Borrow("C05-R24", runC08, func(o an.Obligation) bool { return o.Rule == "C08-R10" })
	// ---- R22: only validated upstream responses are passed on (shared with C17-R4)
	c.Floor("C05-R22", 1)
	c.Borrow("C05-R22", runC17, func(o an.Obligation) bool {
		return o.Rule == "C17-R4" && strings.Contains(o.Key, "UpstreamPlain).Exchange")
	})
	// ---- R21: the desired subnet length follows the family of the network
	if n := c05DesiredLengthByFamily(c, "C05-R21"); n < 4 {
		c.Und("C05-R21", "replaceSubnet calls of the GeoIP scanner", token.NoPos, "only %d calls found (4 confirmed by reading)", n)
	}
	// ---- R20: pooled OPT records start empty (shared with C08-R6)
	c.Floor("C05-R20", 1)
	c.Borrow("C05-R20", runC08, func(o an.Obligation) bool { return o.Rule == "C08-R6" && strings.Contains(o.Key, "newOPT") })
	classSweep(c, "C05")
	// ---- R19: a network narrower than the desired length never becomes the subnet of a country or location
	c.Floor("C05-R19", 2)
	for _, inst := range []string{
		"geoip.replaceSubnet[github.com/AdguardTeam/AdGuardDNS/internal/geoip.Country github.com/AdguardTeam/AdGuardDNS/internal/geoip.countrySubnets]",
		"geoip.replaceSubnet[github.com/AdguardTeam/AdGuardDNS/internal/geoip.locationKey github.com/AdguardTeam/AdGuardDNS/internal/geoip.locationSubnets]",
	} {
		decide(c, "C05-R19", inst, an.DecideCfg{
			Dom: an.Domain{"p0[p1]#ok": an.Bools, "bits": an.Ints(8, 24, 28), "prevbits": an.Ints(8, 16, 24), "p3": an.Ints(24)},
			OnCall: func(it *an.Interp, name string, args []an.AV) (an.AV, bool) {
				switch {
				case strings.HasSuffix(name, "netip.Prefix).Bits"):
					if args[0].String() == "p2" {
						return it.Feature("bits"), true
					}
					return it.Feature("prevbits"), true
				case strings.HasSuffix(name, "geoip.dist"):
					a, b := avInt(args[0]), avInt(args[1])
					if a < b {
						a, b = b, a
					}
					return an.CInt(a - b), true
				}
				return an.AV{}, false
			},
			Expect: func(f an.Features, o an.AOutcome) string {
				d := func(a int64) int64 {
					if a < 24 {
						return 24 - a
					}
					return a - 24
				}
				want := f.I("bits") <= 24 && (!f.B("p0[p1]#ok") || !(d(f.I("prevbits")) < d(f.I("bits"))))
				stored := false
				for _, e := range o.Effects {
					if e.Kind == "mapupdate" || e.Kind == "store" && strings.HasPrefix(e.Name, "p0[") {
						stored = true
					}
				}
				if stored != want {
					return fmt.Sprintf("stored=%v (a network is taken only if it is at least as broad as the desired length, and then only if it is not farther from it than the one already there); effects %v", want, o.Effects)
				}
				return ""
			},
		})
	}
	// ---- R18: an upstream socket on which an exchange failed is closed, not pooled: a late reply to that exchange
	// would be read as the answer to the next query with the same ID and question, whatever subnet it was sent for
	// (table of processConn, shared with C17-R4)
	c.Floor("C05-R18", 1)
	c.Borrow("C05-R18", runC17, func(o an.Obligation) bool { return o.Rule == "C17-R4" && strings.Contains(o.Key, "processConn") })
	// ---- R17: a client-subnet option is read in the family it declares (table of ecsData)
	c.Floor("C05-R17", 1)
	decide(c, "C05-R17", "dnsmsg.ecsData", an.DecideCfg{
		Dom: an.Domain{"p0.Family": an.Ints(0, 1, 2, 3), "iperr": an.Bools, "valid": an.Bools},
		OnCall: func(it *an.Interp, name string, args []an.AV) (an.AV, bool) {
			switch {
			case strings.HasSuffix(name, "netutil.IPToAddr"):
				if len(args) != 2 || args[0].String() != "p0.Address" {
					return an.Sym("conversion of something else"), true
				}
				if it.Feature("iperr").IsTrue() {
					return an.AV{Kind: an.KTuple, Tup: []an.AV{an.Sym("zeroAddr"), an.NonNil("ipErr")}}, true
				}
				return an.AV{Kind: an.KTuple, Tup: []an.AV{an.Sym("ip(" + args[1].String() + ")"), an.Nil()}}, true
			case strings.HasSuffix(name, "netip.PrefixFrom"):
				return an.Sym("prefix(" + args[0].String() + "," + args[1].String() + ")"), true
			case strings.HasSuffix(name, "netip.Prefix).IsValid"):
				return it.Feature("valid"), true
			case strings.HasSuffix(name, "netip.Prefix).Masked"):
				return an.Sym("masked"), true
			case name == "fmt.Errorf":
				return an.NonNil("wrapped"), true
			}
			return an.AV{}, false
		},
		Expect: func(f an.Features, o an.AOutcome) string {
			fam := f.I("p0.Family")
			ok := (fam == 1 || fam == 2) && !f.B("iperr") && f.B("valid")
			if len(o.Ret) != 3 {
				return "three results"
			}
			// the comparison of the subnet with its masked form is explored both ways by the engine (a comparison of
			// two opaque values); on the "bits beyond the prefix" side an otherwise acceptable option is refused
			refusedForBits := false
			for _, e := range o.Effects {
				if e.Kind == "call" && e.Name == "fmt.Errorf" && len(e.Args) > 0 && strings.Contains(e.Args[0], "non-zero bits beyond prefix") {
					refusedForBits = true
				}
			}
			if ok && refusedForBits && o.Ret[2].Kind != an.KNil {
				return ""
			}
			if ok != (o.Ret[2].Kind == an.KNil) {
				return fmt.Sprintf("accepted=%v (family 1 or 2, an address of that family, a valid source length, no bits beyond it); got %s", ok, o.RetString())
			}
			if ok && !strings.Contains(o.Ret[0].String(), fmt.Sprintf("prefix(ip(%d)", fam)) && !strings.Contains(o.Ret[0].String(), "prefix(ip(") {
				return "the subnet is made from the option's address converted in the option's own family; got " + o.Ret[0].String()
			}
			return ""
		},
	})
	// ---- R16: an answer the upstream scoped to a subnet is treated as scope zero only for the listed names themselves
	c.Floor("C05-R16", 1)
	decide(c, "C05-R16", "ecscache.respIsECSDependent", an.DecideCfg{
		Dom: an.Domain{"p0": an.Ints(0, 1, 24), "listed": an.Bools},
		OnCall: func(it *an.Interp, name string, args []an.AV) (an.AV, bool) {
			if strings.HasSuffix(name, ".Has") && len(args) == 2 {
				if args[0].String() != "ecscache.FakeECSFQDNs" && !strings.Contains(args[0].String(), "FakeECSFQDNs") || args[1].String() != "p1" {
					return an.Sym("lookup of " + args[1].String() + " in " + args[0].String()), true
				}
				return it.Feature("listed"), true
			}
			return an.AV{}, false
		},
		Expect: func(f an.Features, o an.AOutcome) string {
			want := fmt.Sprint(f.I("p0") != 0 && !f.B("listed"))
			if o.Exit != "return" || o.RetString() != want {
				return want + " (dependent exactly when the scope is not zero and the question name itself is not in the list of names that echo ECS without using it); got " + o.RetString()
			}
			return ""
		},
	})
	// ---- R15: padding an answer only adds the padding option; the client-subnet echo stays (table shared with C08-R5)
	c.Floor("C05-R15", 1)
	c.Borrow("C05-R15", runC08, func(o an.Obligation) bool { return o.Rule == "C08-R5" && strings.Contains(o.Key, "padAnswer") })
	// ---- R14: the client's options are read and replaced in the last OPT record only (IsEdns0), so a query with more
	// than one OPT record never reaches the handlers: the accept gate answers FORMERR (shared with C01-R1), and the
	// helper that recognises such a query counts every OPT record of the additional section
	c.Floor("C05-R14", 3)
	decide(c, "C05-R14", "dnsserver.hasMisplacedOPT", an.DecideCfg{
		Dom: an.Domain{"len(p0.Answer)": an.Ints(0, 1, 2), "len(p0.Ns)": an.Ints(0, 1, 2),
			"(p0.Answer[0].Header().Rrtype == 41)": an.Bools, "(p0.Answer[1].Header().Rrtype == 41)": an.Bools,
			"(p0.Ns[0].Header().Rrtype == 41)": an.Bools, "(p0.Ns[1].Header().Rrtype == 41)": an.Bools},
		Expect: func(f an.Features, o an.AOutcome) string {
			want := false
			for _, sec := range []string{"Answer", "Ns"} {
				for i := int64(0); i < f.I("len(p0."+sec+")"); i++ {
					want = want || f.B(fmt.Sprintf("(p0.%s[%d].Header().Rrtype == 41)", sec, i))
				}
			}
			if o.Exit != "return" || o.RetString() != fmt.Sprint(want) {
				return fmt.Sprint(want) + " (true exactly when some record of the answer or authority section is an OPT record)"
			}
			return ""
		},
	})
	c.Borrow("C05-R14", runC01, func(o an.Obligation) bool { return o.Rule == "C01-R1" })
	decide(c, "C05-R14", "dnsserver.hasMultipleOPT", an.DecideCfg{
		Dom: an.Domain{"len(p0.Extra)": an.Ints(0, 1, 2, 3),
			"(p0.Extra[0].Header().Rrtype == 41)": an.Bools, "(p0.Extra[1].Header().Rrtype == 41)": an.Bools, "(p0.Extra[2].Header().Rrtype == 41)": an.Bools},
		Expect: func(f an.Features, o an.AOutcome) string {
			n := 0
			for i := int64(0); i < f.I("len(p0.Extra)"); i++ {
				if f.B(fmt.Sprintf("(p0.Extra[%d].Header().Rrtype == 41)", i)) {
					n++
				}
			}
			if want := fmt.Sprint(n > 1); o.Exit != "return" || o.RetString() != want {
				return want + " (true exactly when more than one record of the additional section is an OPT record, wherever they stand)"
			}
			return ""
		},
	})
	dnssvcWiring(c, "C05-R9", func(dst, src string) bool {
		n := normName(dst) + " " + normName(src)
		return strings.Contains(n, "geoip") || strings.Contains(n, "ecscount")
	}, 2)
	// ---- C05-R9: builder wiring of the components this property rests on
	c.Floor("C05-R9", 5)
	builderWiring(c, "C05-R9", map[string][]string{
		"initDNS|dnssvc.HandlersConfig": {"GeoIP", "Cache"},
		"initGeoIP|geoip.FileConfig":    nil,
	})
	// ---- R8: upstream EDNS options never reach the client; the client's ECS data survives the copy made for rewritten requests
	c.Floor("C05-R8", 3)
	ecsHopToHop(c, "C05-R8")
	// a recycled request-information object never carries the previous client's ECS data or location
	sharedPoolInitSweep(c, "C05-R8", "agd.RequestInfo")
	c.Inf("C05-R8", "partial-copy sweep", token.NoPos, "%d field-by-field copies examined in dnssvc", sharedPartialCopy(c, "C05-R8", func(fn *ssa.Function) bool {
		return strings.HasPrefix(an.FnKey(fn), "dnssvc")
	}, map[string]string{}))
	c05GeoData(c)
	c.Floor("C05-R10", 2)
	c05RefreshClears(c)
	// ---- R13: the ECS cache stores a copy (the message that is then finished with the client's own ECS option is not the cached one)
	c.Floor("C05-R13", 4)
	c07Caches(c, "C05-R13")
	// ---- R12: the address bytes of an ECS option are the option's own (no pooled scratch buffer stays referenced)
	c.Inf("C05-R12", "pooled scratch buffers", token.NoPos, "%d Get/Put pairs of byte buffers examined in the ECS and message code", sharedPooledBufferEscape(c, "C05-R12", "ecscache.", "dnsmsg.", "dnssvc/"))
	// ---- R11: GeoIP records are decoded into fresh values (a network without a country does not inherit the previous one's)
	if n := sharedFreshDecodeTarget(c, "C05-R11", "geoip."); n < 5 {
		c.Und("C05-R11", "GeoIP record decoding", token.NoPos, "only %d decoder calls found", n)
	}
	sharedErrorsAs(c, "C05-R5", 1, "dnssvc/internal/ratelimitmw.", "ecscache.", "dnsmsg.")
	if n := sharedLoopCompleteness(c, "C05-R6", "dnsmsg.", "ecscache.", "geoip."); n > 0 {
		c.Ok("C05-R6", "element-wise loops", token.NoPos, "%d range loops of the ECS helpers examined: no element ends a scan early", n)
	}
	c.Floor("C05-R1", 3)
	c.Floor("C05-R2", 3)
	c.Floor("C05-R3", 8)
	c.Floor("C05-R4", 5)
	c.Floor("C05-R5", 2)

	// ---- R1 handler
	decide(c, "C05-R1", "ecscache.(*mwHandler).ServeDNS", an.DecideCfg{
		Dom: an.Domain{"ri.ECS": {an.Nil(), an.NonNil("ri.ECS")}, "bits0": an.Bools, "geozero": an.Bools, "geoerr": an.Bools, "hit": an.Bools,
			"nexterr": an.Bools, "nrwmsg": an.Bools, "seterr": an.Bools},
		Inline: func(f *ssa.Function) bool { return an.FnKey(f) == "ecscache.(*mwHandler).ServeDNS$1" },
		OnCall: func(it *an.Interp, name string, args []an.AV) (an.AV, bool) {
			switch {
			case strings.HasSuffix(name, ".Get") && strings.Contains(name, "Pool"):
				return an.NonNil("cr"), true
			case name == "agd.MustRequestInfoFromContext":
				return an.NonNil("ri"), true
			case name == "(net/netip.Prefix).Bits":
				if strings.HasPrefix(args[0].String(), "geosubnet(") {
					// the looked-up subnet: the zero prefix for a location without data (C04-R19 demands the test)
					if it.Feature("geozero").IsTrue() {
						return an.CInt(0), true
					}
					return an.CInt(16), true
				}
				if args[0].String() != "ri.ECS.Subnet" {
					return an.Sym("bits of another prefix"), true
				}
				if it.Feature("bits0").IsTrue() {
					return an.CInt(0), true
				}
				return an.CInt(24), true
			case name == "ecscache.ecsFamFromReq":
				return an.Sym("fam(" + args[0].String() + ")"), true
			case name == "ecscache.locFromReq":
				return an.NonNil("loc(" + args[0].String() + ")"), true
			case name == "p0.mw.geoIP.SubnetByLocation":
				if it.Feature("geoerr").IsTrue() {
					return an.AV{Kind: an.KTuple, Tup: []an.AV{an.Sym("zeroprefix"), an.NonNil("geoErr")}}, true
				}
				return an.AV{Kind: an.KTuple, Tup: []an.AV{an.Sym("geosubnet(" + args[0].String() + "," + args[1].String() + ")"), an.Nil()}}, true
			case strings.HasSuffix(name, "netutil.ZeroPrefix"):
				return an.Sym("zero(" + args[0].String() + ")"), true
			case name == "(*ecscache.Middleware).get":
				if it.Feature("hit").IsTrue() {
					return an.AV{Kind: an.KTuple, Tup: []an.AV{an.NonNil("cached"), an.Sym("isecs")}}, true
				}
				return an.AV{Kind: an.KTuple, Tup: []an.AV{an.Nil(), an.CBool(false)}}, true
			case name == "(*dnsmsg.Cloner).Clone":
				return an.NonNil("clone(" + args[1].String() + ")"), true
			case name == "ecscache.setECS":
				if it.Feature("seterr").IsTrue() {
					return an.NonNil("setErr"), true
				}
				return an.Nil(), true
			case name == "dnsserver.NewNonWriterResponseWriter":
				return an.NonNil("nrw"), true
			case name == "p0.next.ServeDNS":
				if it.Feature("nexterr").IsTrue() {
					return an.NonNil("nextErr"), true
				}
				return an.Nil(), true
			case strings.HasSuffix(name, "NonWriterResponseWriter).Msg"):
				if it.Feature("nrwmsg").IsTrue() {
					return an.NonNil("upstreamResp"), true
				}
				return an.Nil(), true
			case name == "fmt.Errorf", strings.HasSuffix(name, "errors.Annotate"):
				if len(args) > 0 && args[0].Kind == an.KNil {
					return an.Nil(), true
				}
				return an.NonNil("wrapped"), true
			case name == "ecscache.writeCachedResponse", name == "(*ecscache.Middleware).writeUpstreamResponse":
				return an.Nil(), true
			}
			return an.AV{}, false
		},
		Expect: func(f an.Features, o an.AOutcome) string {
			declined := !f.IsNil("ri.ECS") && f.B("bits0")
			fam := "fam(nonnil:ri)"
			wantSubnet := "geosubnet(nonnil:loc(nonnil:ri)," + fam + ")"
			geo := o.HasCall("p0.mw.geoIP.SubnetByLocation")
			if declined {
				wantSubnet = "zero(" + fam + ")"
				if geo {
					return "no GeoIP lookup for a client that opted out"
				}
			} else if !geo {
				return "a GeoIP subnet lookup for the request's location"
			}
			if !declined && f.B("geoerr") {
				if !o.HasCall("p0.next.ServeDNS") && !o.HasCall("ecscache.writeCachedResponse") {
					return ""
				}
				return "an error return when the subnet cannot be determined"
			}
			if got := o.Mem["cr.subnet"].String(); got != wantSubnet {
				return "upstream subnet " + wantSubnet + "; got " + got
			}
			// a location without a subnet is keyed like an opt-out (the feature is bound only when the code asks
			// for the length of the looked-up subnet; C04-R19 demands that it does)
			if keyed := declined || f.B("geozero"); o.Mem["cr.isECSDeclined"].String() != fmt.Sprint(keyed) {
				return "the opt-out flag " + fmt.Sprint(keyed) + "; got " + o.Mem["cr.isECSDeclined"].String()
			}
			var next, hitw, missw, setecs []string
			for _, e := range o.Effects {
				if e.Kind != "call" {
					continue
				}
				switch e.Name {
				case "p0.next.ServeDNS":
					next = append(next, strings.Join(e.Args, ","))
				case "ecscache.writeCachedResponse":
					hitw = append(hitw, strings.Join(e.Args, ","))
				case "(*ecscache.Middleware).writeUpstreamResponse":
					missw = append(missw, strings.Join(e.Args, ","))
				case "ecscache.setECS":
					setecs = append(setecs, strings.Join(e.Args, ","))
				}
			}
			if f.B("hit") {
				if len(next) == 0 && len(hitw) == 1 && hitw[0] == "p1,p2,p3,nonnil:cached,ri.ECS,"+fam+",isecs" ||
					len(next) == 0 && len(hitw) == 1 && hitw[0] == "p1,p2,p3,nonnil:cached,nil,"+fam+",isecs" ||
					len(next) == 0 && len(hitw) == 1 && hitw[0] == "p1,p2,p3,nonnil:cached,nonnil:ri.ECS,"+fam+",isecs" {
					return ""
				}
				return "a cached answer written with the client's own ECS data and no upstream query; got " + fmt.Sprint(hitw)
			}
			// miss
			if len(setecs) != 1 {
				return "exactly one setECS on the upstream request"
			}
			sargs := strings.Split(setecs[0], ",")
			if len(sargs) != 4 || sargs[0] != "nonnil:clone(p3)" || sargs[2] != fam || sargs[3] != "false" || !strings.HasPrefix(sargs[1], "&local#") {
				return "setECS(clone of the request, new ECS, family, isResp=false); got " + setecs[0]
			}
			ek := strings.TrimPrefix(sargs[1], "&")
			if o.Mem[ek+".Subnet"].String() != wantSubnet || o.Mem[ek+".Scope"].String() != "0" {
				return "the upstream ECS to carry subnet " + wantSubnet + " and scope 0; got " + o.Mem[ek+".Subnet"].String() + "/" + o.Mem[ek+".Scope"].String()
			}
			if f.B("seterr") {
				if len(next) == 0 {
					return ""
				}
				return "no upstream query when the option cannot be set"
			}
			if len(next) != 1 || next[0] != "p1,nonnil:nrw,nonnil:clone(p3)" {
				return "the next stage called once with the rewritten clone (never the original request); got " + fmt.Sprint(next)
			}
			if f.B("nexterr") || !f.B("nrwmsg") {
				if len(missw) == 0 {
					return ""
				}
				return "no response processing without an upstream answer"
			}
			if len(missw) == 1 && missw[0] == "p0.mw,p1,p2,p3,nonnil:upstreamResp,nonnil:ri,nonnil:cr,"+fam {
				return ""
			}
			return "the upstream answer processed with this request's data; got " + fmt.Sprint(missw)
		},
	})

	// ---- R1b: family and location used for the upstream subnet
	decide(c, "C05-R1", "ecscache.ecsFamFromReq", an.DecideCfg{
		Dom: an.Domain{"p0.ECS": {an.Nil(), an.NonNil("ecs")}, "is4": an.Bools},
		OnCall: func(it *an.Interp, name string, args []an.AV) (an.AV, bool) {
			switch name {
			case "(net/netip.Prefix).Addr":
				return an.Sym("addr(" + args[0].String() + ")"), true
			case "(net/netip.Addr).Is4":
				return it.Feature("is4"), true
			}
			return an.AV{}, false
		},
		Expect: func(f an.Features, o an.AOutcome) string {
			// which address was tested?
			tested := ""
			for _, e := range o.Effects {
				if e.Kind == "call" && e.Name == "(net/netip.Addr).Is4" {
					tested = e.Args[0]
				}
			}
			wantAddr := "p0.RemoteIP"
			if !f.IsNil("p0.ECS") {
				wantAddr = "addr(ecs.Subnet)"
			}
			if tested != wantAddr {
				return "the family of " + wantAddr + " (the client's ECS subnet when present, else its address); tested " + tested
			}
			v4, _ := c.ConstInt("github.com/AdguardTeam/golibs/netutil", "AddrFamilyIPv4")
			v6, _ := c.ConstInt("github.com/AdguardTeam/golibs/netutil", "AddrFamilyIPv6")
			want := v6
			if f.B("is4") {
				want = v4
			}
			if o.RetString() == fmt.Sprint(want) {
				return ""
			}
			return fmt.Sprint(want)
		},
	})
	decide(c, "C05-R1", "ecscache.locFromReq", an.DecideCfg{
		Dom: an.Domain{"p0.ECS": {an.Nil(), an.NonNil("ecs")}, "ecs.Location": {an.Nil(), an.NonNil("ecsloc")}, "p0.Location": {an.Nil(), an.NonNil("riloc")},
			`(ecsloc.Country == "")`: an.Bools},
		Expect: func(f an.Features, o an.AOutcome) string {
			if o.Exit != "return" || len(o.Ret) != 1 {
				return "a location"
			}
			k := strings.TrimPrefix(o.Ret[0].String(), "&")
			ctry, asn := o.Mem[k+".Country"].String(), o.Mem[k+".ASN"].String()
			fromECS := !f.IsNil("p0.ECS") && !f.IsNil("ecs.Location") && !f.B(`(ecsloc.Country == "")`)
			switch {
			case fromECS:
				if ctry == "ecsloc.Country" && asn == "ecsloc.ASN" {
					return ""
				}
				return "country and ASN of the ECS option's location"
			case !f.IsNil("p0.Location"):
				if ctry == "riloc.Country" && asn == "riloc.ASN" {
					return ""
				}
				return "country and ASN of the client address's location; got " + ctry + "/" + asn
			default:
				if ctry == `""` || ctry == "ecsloc.Country" {
					return ""
				}
				return "no country when nothing is known; got " + ctry
			}
		},
	})

	// ---- R2 who writes cacheRequest.subnet
	for _, fs := range c.FieldStores("ecscache.cacheRequest", "subnet") {
		if c.IsTestFile(fs.Store.Pos()) {
			continue
		}
		key := an.FnKey(fs.In) + " stores cacheRequest.subnet"
		ok := false
		v := fs.Val
		if ex, isEx := v.(*ssa.Extract); isEx {
			v = ex.Tuple
		}
		if call, isCall := v.(*ssa.Call); isCall {
			n := an.Short(an.CalleeName(call))
			if n == "(geoip.Interface).SubnetByLocation" || strings.HasSuffix(n, "netutil.ZeroPrefix") {
				ok = true
			}
		}
		c.Check(ok, "C05-R2", key, fs.Store.Pos(), "from GeoIP's SubnetByLocation or the zero prefix",
			"the subnet sent upstream is taken from something other than GeoIP's coarse subnet or the zero prefix (e.g. the client's own option or address)")
	}

	// ---- R3 lookup
	decide(c, "C05-R3", "ecscache.(*Middleware).get", an.DecideCfg{
		Dom: an.Domain{"hit0": an.Bools, "hit1": an.Bools, "p3.isECSDeclined": an.Bools},
		OnCall: func(it *an.Interp, name string, args []an.AV) (an.AV, bool) {
			switch name {
			case "(*ecscache.Middleware).toCacheKey":
				return an.Sym("key(" + args[2].String() + ")"), true
			case "(*ecscache.Middleware).itemFromCache":
				k := "hit0"
				if args[2].String() == "p0.ecsCache" {
					k = "hit1"
				}
				if it.Feature(k).IsTrue() {
					return an.AV{Kind: an.KTuple, Tup: []an.AV{an.NonNil("item:" + args[2].String() + ":" + args[3].String()), an.CBool(true)}}, true
				}
				return an.AV{Kind: an.KTuple, Tup: []an.AV{an.Nil(), an.CBool(false)}}, true
			case "ecscache.fromCacheItem":
				return an.NonNil("resp(" + args[0].String() + ")"), true
			}
			return an.AV{}, false
		},
		Expect: func(f an.Features, o an.AOutcome) string {
			want := "nil, false"
			switch {
			case f.B("hit0"):
				want = "nonnil:resp(nonnil:item:p0.cache:key(false)), false"
			case f.B("p3.isECSDeclined"):
			case f.B("hit1"):
				want = "nonnil:resp(nonnil:item:p0.ecsCache:key(true)), true"
			}
			if !f.B("hit0") && f.B("p3.isECSDeclined") {
				for _, e := range o.Effects {
					if e.Kind == "call" && e.Name == "(*ecscache.Middleware).itemFromCache" && e.Args[2] == "p0.ecsCache" {
						return "no lookup in the ECS cache for a client that opted out"
					}
				}
			}
			if o.RetString() == want {
				return ""
			}
			return want
		},
	})

	// the ECS cache key separates subnets (address bytes and length) and opt-out entries
	ecsKeyDeps(c, "C05-R3")

	// ---- R4 echo + setECS
	decide(c, "C05-R4", "ecscache.writeCachedResponse", an.DecideCfg{
		Dom: an.Domain{"p4": an.NilOrNot, "seterr": an.Bools},
		OnCall: func(it *an.Interp, name string, args []an.AV) (an.AV, bool) {
			switch {
			case name == "ecscache.setECS":
				if it.Feature("seterr").IsTrue() {
					return an.NonNil("setErr"), true
				}
				return an.Nil(), true
			case name == "p1.WriteMsg":
				return an.Nil(), true
			case name == "fmt.Errorf":
				return an.NonNil("wrapped"), true
			}
			return an.AV{}, false
		},
		Expect: func(f an.Features, o an.AOutcome) string {
			var sets []string
			for _, e := range o.Effects {
				if e.Kind == "call" && e.Name == "ecscache.setECS" {
					sets = append(sets, strings.Join(e.Args, ","))
				}
			}
			if f.IsNil("p4") {
				if len(sets) == 0 {
					return ""
				}
				return "no ECS option in the answer to a query without one"
			}
			if len(sets) == 1 && sets[0] == "p3,nonnil:p4,p5,true" {
				return ""
			}
			return "setECS(resp, client's ECS, family, isResp=true); got " + fmt.Sprint(sets)
		},
	})
	// miss path echo gate in writeUpstreamResponse
	if fn := c.Fn("ecscache.(*Middleware).writeUpstreamResponse"); fn == nil {
		c.Und("C05-R4", "ecscache.(*Middleware).writeUpstreamResponse", token.NoPos, "anchor not found")
	} else {
		ok := false
		for _, call := range an.CallsTo(fn, "ecscache.setECS") {
			args := call.Common().Args
			k, isConst := args[3].(*ssa.Const)
			ap, okp := an.AccessPath(args[1])
			if !isConst || k.Value == nil || k.Value.String() != "true" || !okp || ap != "p5.ECS" {
				continue
			}
			for _, e := range an.DominatingConds(call.Block()) {
				if b, isBin := e.If.Cond.(*ssa.BinOp); isBin && b.Op == token.NEQ && an.IsNilConst(b.Y) && e.Branch {
					if ap2, ok2 := an.AccessPath(b.X); ok2 && ap2 == "p5.ECS" {
						ok = true
					}
				}
			}
		}
		c.Check(ok, "C05-R4", "writeUpstreamResponse echo", fn.Pos(), "the client's ECS is echoed exactly under ri.ECS != nil, as a response option",
			"the miss path does not echo the client's ECS under ri.ECS != nil with isResp=true")
	}
	decide(c, "C05-R4", "ecscache.setECS", an.DecideCfg{
		Dom: an.Domain{"converr": an.Bools, "hasopt": an.Bools, "p3": an.Bools},
		OnCall: func(it *an.Interp, name string, args []an.AV) (an.AV, bool) {
			switch {
			case name == "ecscache.addrToNetIP":
				if it.Feature("converr").IsTrue() {
					return an.AV{Kind: an.KTuple, Tup: []an.AV{an.Nil(), an.NonNil("convErr")}}, true
				}
				return an.AV{Kind: an.KTuple, Tup: []an.AV{an.NonNil("ip"), an.Nil()}}, true
			case name == "(net/netip.Prefix).Bits":
				return an.Sym("bits"), true
			case name == "(*github.com/miekg/dns.Msg).IsEdns0":
				if it.Feature("hasopt").IsTrue() {
					return an.NonNil("opt"), true
				}
				return an.Nil(), true
			case strings.HasPrefix(name, "slices.DeleteFunc"):
				return an.Sym("withoutSubnet(" + args[0].String() + "," + args[1].String() + ")"), true
			case name == "fmt.Errorf":
				return an.NonNil("wrapped"), true
			}
			return an.AV{}, false
		},
		MaxFree: 2,
		Expect: func(f an.Features, o an.AOutcome) string {
			if f.B("converr") {
				if len(o.Stores()) == 0 && o.Ret[0].Kind != an.KNil {
					return ""
				}
				return "an error without touching the message when the address does not fit the family"
			}
			// find the appended option
			var optKey string
			for k := range o.Mem {
				if strings.HasSuffix(k, ".SourceNetmask") {
					optKey = strings.TrimSuffix(k, ".SourceNetmask")
				}
			}
			if optKey == "" {
				return "a subnet option to be written"
			}
			wantScope := "0"
			if f.B("p3") {
				wantScope = "bits"
			}
			if o.Mem[optKey+".SourceNetmask"].String() != "bits" || o.Mem[optKey+".SourceScope"].String() != wantScope || o.Mem[optKey+".Address"].String() != "nonnil:ip" {
				return "option with source = prefix length, scope = " + wantScope + ", address = converted subnet address; got " +
					o.Mem[optKey+".SourceNetmask"].String() + "/" + o.Mem[optKey+".SourceScope"].String() + "/" + o.Mem[optKey+".Address"].String()
			}
			if f.B("hasopt") {
				// every pre-existing subnet option must be gone: the option list is rebuilt from DeleteFunc of subnet options
				final := ""
				for _, e := range o.Effects {
					if e.Kind == "store" && e.Name == "opt.Option" {
						final = e.Args[0]
					}
				}
				if !strings.Contains(final, "withoutSubnet(opt.Option,") || !strings.Contains(final, "&"+optKey) && !strings.Contains(final, optKey) {
					return "all existing subnet options removed and the single new one appended; got " + final
				}
			}
			return ""
		},
	})
	// the DeleteFunc predicate removes exactly *dns.EDNS0_SUBNET
	if fn := c.Fn("ecscache.setECS$1"); fn != nil {
		ok := false
		an.Instrs(fn, func(in ssa.Instruction) {
			if ta, isTA := in.(*ssa.TypeAssert); isTA && an.TypeName(ta.AssertedType) == "github.com/miekg/dns.EDNS0_SUBNET" {
				ok = true
			}
		})
		c.Check(ok, "C05-R4", "ecscache.setECS$1", fn.Pos(), "the removal predicate selects *dns.EDNS0_SUBNET options", "the removal predicate does not select subnet options")
	}

	// the cached copy never carries a client's ECS echo
	ecsStoreOrder(c, "C05-R4")

	// ---- R5 location / FORMERR
	sharedLocation(c, "C05-R5")
	decide(c, "C05-R5", "dnssvc/internal/ratelimitmw.(*Middleware).processLocationErr", an.DecideCfg{
		Dom: an.Domain{"isbadecs": an.Bools},
		OnCall: func(it *an.Interp, name string, args []an.AV) (an.AV, bool) {
			switch {
			case strings.HasSuffix(name, "errors.As"):
				return it.Feature("isbadecs"), true
			case name == "(*dnsmsg.Constructor).NewRespRCode":
				return an.NonNil("resp(" + args[1].String() + "," + args[2].String() + ")"), true
			case name == "p2.WriteMsg":
				return an.Nil(), true
			case strings.HasSuffix(name, "errors.Annotate"), strings.HasSuffix(name, "errors.WithDeferred"):
				return args[0], true
			}
			return an.AV{}, false
		},
		Expect: func(f an.Features, o an.AOutcome) string {
			var wr []string
			for _, e := range o.Effects {
				if e.Kind == "call" && e.Name == "p2.WriteMsg" {
					wr = append(wr, strings.Join(e.Args, ","))
				}
			}
			formerr, _ := c.ConstInt("github.com/miekg/dns", "RcodeFormatError")
			if !f.B("isbadecs") {
				if len(wr) == 0 {
					return ""
				}
				return "no response for other errors"
			}
			if len(wr) == 1 && wr[0] == fmt.Sprintf("p1,p3,nonnil:resp(p3,%d)", formerr) {
				return ""
			}
			return "exactly one FORMERR response built from this request; got " + fmt.Sprint(wr)
		},
	})
}

// c05GeoData is the table of geoip.File.Data: the address is normalised before
// it keys the location cache, and the same address is used for the look-ups.
func c05GeoData(c *an.Ctx) {
	c.Floor("C05-R7", 1)
	decide(c, "C05-R7", "geoip.(*File).Data", an.DecideCfg{
		Dom: an.Domain{"(p2 == zero:net/netip.Addr)": an.Bools, "mapped": an.Bools, "hit": an.Bools, "asnerr": an.Bools, "ctryerr": an.Bools},
		OnCall: func(it *an.Interp, name string, args []an.AV) (an.AV, bool) {
			switch {
			case strings.HasSuffix(name, ").dataByHost"):
				return an.Sym("byhost(" + args[1].String() + ")"), true
			case name == "(net/netip.Addr).Is4In6":
				if args[0].String() != "p2" {
					return an.CBool(false), true
				}
				return it.Feature("mapped"), true
			case name == "(net/netip.Addr).As4":
				return an.Sym("as4(" + args[0].String() + ")"), true
			case name == "net/netip.AddrFrom4":
				return an.Sym("v4(" + args[0].String() + ")"), true
			case strings.HasSuffix(name, "geoip.ipToCacheKey"):
				return an.Sym("key(" + args[0].String() + ")"), true
			case name == "p0.ipCache.Get":
				return an.AV{Kind: an.KTuple, Tup: []an.AV{an.Sym("item(" + args[0].String() + ")"), it.Feature("hit")}}, true
			case strings.Contains(name, "prometheus.") || strings.Contains(name, "metrics."):
				return an.Nil(), true
			case strings.HasSuffix(name, ").lookupASN"):
				if it.Feature("asnerr").IsTrue() {
					return an.AV{Kind: an.KTuple, Tup: []an.AV{an.CInt(0), an.NonNil("asnErr")}}, true
				}
				return an.AV{Kind: an.KTuple, Tup: []an.AV{an.Sym("asn(" + args[1].String() + ")"), an.Nil()}}, true
			case strings.HasSuffix(name, ").setCtry"):
				if it.Feature("ctryerr").IsTrue() {
					return an.NonNil("ctryErr"), true
				}
				return an.Nil(), true
			case strings.HasSuffix(name, ").setCaches"):
				return an.Nil(), true
			case name == "fmt.Errorf":
				return an.NonNil("wrapped"), true
			}
			return an.AV{}, false
		},
		Expect: func(f an.Features, o an.AOutcome) string {
			if f.B("(p2 == zero:net/netip.Addr)") {
				if o.RetString() == "byhost(p1), nil" {
					return ""
				}
				return "the host-based location when no address is given; got " + o.RetString()
			}
			ip := "p2"
			if f.B("mapped") {
				ip = "v4(as4(p2))"
			}
			key := "key(" + ip + ")"
			for _, e := range o.Effects {
				if e.Kind == "call" && e.Name == "p0.ipCache.Get" && e.Args[0] != key {
					return "the location cache keyed by the normalised address (an IPv4-mapped IPv6 address as its IPv4 form; otherwise all mapped addresses share the first 7 zero bytes and collide): " + key + "; got " + e.Args[0]
				}
			}
			if f.B("hit") {
				if o.RetString() == "item("+key+"), nil" {
					return ""
				}
				return "the cached location; got " + o.RetString()
			}
			if f.B("asnerr") || f.B("ctryerr") {
				if len(o.Ret) == 2 && o.Ret[0].Kind == an.KNil && o.Ret[1].Kind != an.KNil && !o.HasCall("(*geoip.File).setCaches") {
					return ""
				}
				return "an error and nothing cached when a look-up fails"
			}
			for _, e := range o.Effects {
				if e.Kind != "call" {
					continue
				}
				switch {
				case strings.HasSuffix(e.Name, ").lookupASN") && e.Args[1] != ip:
					return "the ASN looked up for the normalised address; got " + e.Args[1]
				case strings.HasSuffix(e.Name, ").setCtry") && e.Args[2] != ip:
					return "the country looked up for the normalised address; got " + e.Args[2]
				case strings.HasSuffix(e.Name, ").setCaches") && (e.Args[1] != "p1" || e.Args[2] != key):
					return "the result cached under this host and this address's key; got " + strings.Join(e.Args[1:], ",")
				}
			}
			if len(o.Ret) != 2 || !strings.HasPrefix(o.Ret[0].String(), "&local#") || o.Ret[1].Kind != an.KNil {
				return "the looked-up location; got " + o.RetString()
			}
			return ""
		},
	})
}

// c05RefreshClears: once Refresh has installed the new databases, no path
// returns without clearing both lookup caches (an entry computed from the old
// database would otherwise keep answering for the address).
func c05RefreshClears(c *an.Ctx) {
	const name = "geoip.(*File).Refresh"
	fn := c.Fn(name)
	if fn == nil {
		c.Und("C05-R10", name+" clears the lookup caches", token.NoPos, "anchor not found")
		return
	}
	c.Analysed(name)
	var installs []*ssa.Store
	an.Instrs(fn, func(in ssa.Instruction) {
		if st, ok := in.(*ssa.Store); ok {
			if typ, field, _, ok := an.FieldOf(st.Addr); ok && typ == "geoip.File" && (field == "asn" || field == "country") {
				installs = append(installs, st)
			}
		}
	})
	if len(installs) == 0 {
		c.Und("C05-R10", name+" clears the lookup caches", fn.Pos(), "no store of the new databases found")
		return
	}
	for _, cache := range []string{"hostCache", "ipCache"} {
		isClear := func(in ssa.Instruction) bool {
			call, ok := in.(ssa.CallInstruction)
			if !ok || !strings.HasSuffix(an.CalleeName(call), ".Clear") {
				return false
			}
			recv := call.Common().Value
			if !call.Common().IsInvoke() && len(call.Common().Args) > 0 {
				recv = call.Common().Args[0]
			}
			ap, _ := an.AccessPath(recv)
			return strings.HasSuffix(ap, "."+cache)
		}
		bad := false
		for _, st := range installs {
			if exitAvoiding(st, nil, isClear) {
				bad = true
			}
		}
		c.Check(!bad, "C05-R10", name+" clears "+cache+" after installing new databases", fn.Pos(),
			"every path from the installation of the new databases to the return clears the cache",
			"a path from the installation of the new databases reaches the return without clearing "+cache+": locations computed from the previous database keep being served")
	}
}

// c05DesiredLengthByFamily: the country and location subnets are chosen near a
// desired length, 24 bits for IPv4 and 56 for IPv6.  With the IPv6 length
// applied to IPv4 networks every /24../32 network counts as "broad enough" and
// the narrowest wins: a client's own small network goes upstream.  For every
// replaceSubnet call the length argument, followed over the phi edges, is the
// IPv4 constant exactly on the paths where Is4() of an address held, and the
// IPv6 constant exactly where it did not.
func c05DesiredLengthByFamily(c *an.Ctx, rule string) (sites int) {
	want := map[int]int64{}
	if pkg := c.Prog.SSA.ImportedPackage("github.com/AdguardTeam/AdGuardDNS/internal/geoip"); pkg != nil {
		for fam, n := range map[int]string{4: "desiredIPv4SubnetLength", 6: "desiredIPv6SubnetLength"} {
			if k, ok := pkg.Members[n].(*ssa.NamedConst); ok {
				want[fam] = k.Value.Int64()
			}
		}
	}
	if len(want) != 2 {
		c.Und(rule, "desired subnet lengths", token.NoPos, "constants desiredIPv4SubnetLength / desiredIPv6SubnetLength not found in package geoip")
		return 99
	}
	// famOfEdge: the family that a conditional edge establishes (Is4 true -> 4, false -> 6; Is6 the other way round)
	famOfEdge := func(e an.CondEdge) int {
		call, ok := e.If.Cond.(*ssa.Call)
		if !ok {
			return 0
		}
		switch an.CalleeName(call) {
		case "(net/netip.Addr).Is4":
			if e.Branch {
				return 4
			}
			return 6
		case "(net/netip.Addr).Is6":
			if e.Branch {
				return 6
			}
			return 4
		}
		return 0
	}
	famAt := func(b *ssa.BasicBlock) int {
		fam := 0
		for _, e := range an.DominatingConds(b) {
			if f := famOfEdge(e); f != 0 {
				fam = f
			}
		}
		return fam
	}
	for _, fn := range c.AllFns {
		k := an.FnKey(fn)
		if fn.Blocks == nil || c.IsTestFile(fn.Pos()) || !strings.HasPrefix(k, "geoip.") {
			continue
		}
		inFn := 0
		for _, call := range an.Calls(fn) {
			callee := an.StaticCallee(call)
			if callee == nil || !strings.HasPrefix(callee.Name(), "replaceSubnet") || len(call.Common().Args) != 4 {
				continue
			}
			sites++
			inFn++
			c.Analysed(k)
			bad := ""
			var check func(v ssa.Value, fam int, where string, depth int)
			check = func(v ssa.Value, fam int, where string, depth int) {
				switch x := v.(type) {
				case *ssa.Const:
					if fam == 0 {
						bad = fmt.Sprintf("the length %s %s is not chosen under a test of the network's family", x.Value, where)
					} else if x.Int64() != want[fam] {
						bad = fmt.Sprintf("the length %s is used %s, where the network is IPv%d (desired length %d)", x.Value, where, fam, want[fam])
					}
				case *ssa.Phi:
					if depth > 3 {
						bad = "the length argument could not be followed"
						return
					}
					for i, e := range x.Edges {
						pred := x.Block().Preds[i]
						f := famAt(pred)
						if ifi, ok := pred.Instrs[len(pred.Instrs)-1].(*ssa.If); ok {
							if g := famOfEdge(an.CondEdge{If: ifi, Branch: pred.Succs[0] == x.Block()}); g != 0 {
								f = g
							}
						}
						check(e, f, "on the path through "+c.Pos(pred.Instrs[len(pred.Instrs)-1].Pos()), depth+1)
					}
				default:
					bad = "the length argument is not one of the two constants"
				}
			}
			check(call.Common().Args[3], famAt(call.Block()), "at the call", 0)
			c.Check(bad == "", rule, fmt.Sprintf("%s: replaceSubnet call %d gets the desired length of the network's family", k, inFn), call.Pos(),
				"IPv4 length where Is4 holds, IPv6 length otherwise", bad+": with the other family's length the breadth test of replaceSubnet selects networks of the wrong size for the subnet sent upstream")
		}
	}
	return sites
}

// cacheTypeValue returns the value of a dnssvc.CacheType constant (-1 if absent).
func cacheTypeValue(c *an.Ctx, name string) int64 {
	if pkg := c.Prog.SSA.ImportedPackage("github.com/AdguardTeam/AdGuardDNS/internal/dnssvc"); pkg != nil {
		if k, ok := pkg.Members[name].(*ssa.NamedConst); ok {
			return k.Value.Int64()
		}
	}
	return -1
}
