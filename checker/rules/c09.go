package rules

import (
	"fmt"
	"go/token"
	"strings"

	"adgverif/an"

	"golang.org/x/tools/go/ssa"
)

func init() {
	register(&Property{ID: "C09", Technique: "decision-tree extraction (abstract interpretation) of the rate-limit middleware functions and of the limiter's decision order, with call-argument tables; lock-held rule for the window counter; loop-exit rule for response counting",
		Run: runC09, Explain: an.Explanation{
			Text: "R1: the three middleware functions: protocols outside the configured list go straight to the next stage; a profile " +
				"verdict 'drop' or a global verdict 'drop' returns without calling the next stage or writing anything; 'use global' " +
				"falls through to the global limiter; an allowlisted client is served directly and not counted; every other request " +
				"is served into a non-writing recorder, its response is counted against the limiter with the client's address, and " +
				"only then written. R2: Backoff.IsRateLimited checks, in this order: address validity, ANY refusal, the allowlist, " +
				"the backoff table, the sliding window; count and interval are chosen by the address family, and both tables are " +
				"keyed by subnetKey(ip), which masks with the key length of the address's own family. R3: the profile limiter " +
				"applies only to the configured client subnets, drops exactly when its window counter says so. R4: the window " +
				"counter's ring is touched only under its mutex. R5: CountResponses counts every estimated response: its loop has " +
				"no exit that depends on the limiter's verdict. R6: the configuration conversion and the limiter constructor copy every limit into the field of the same meaning and address family. " +
				"R7: the window counter keeps limit+1 time stamps, records every event (also a dropped one) before reading the oldest kept stamp, and reports " +
				"'above the limit' exactly when that stamp is set and not older than the interval.",
			NotCovered: "that the ring buffer of golibs behaves as a ring (trusted), so that R7's structure (limit+1 slots, push before read, comparison with " +
				"the interval) yields an exact sliding window; the expiry timing of the backoff tables (temporal facts outside static reach); the allowlist's own matching.",
			Rules: map[string]string{"C09-R28": "profiledb.setProfiles installs the delivered profiles unchanged (no store into a field of agd.Profile): a profile's rate limiter, with its limit and client subnets, is the one built from the latest synchronisation", "C09-R27": "NewBackoff computes the lifetime of the cache of request windows from both counting intervals (as well as the backoff period): a window is never forgotten while events in it still count, whatever the relation between ratelimit.backoff_period and the intervals", "C09-R26": "NewProfileStorage copies every setting into the field of its own meaning (shared with C14-R6): the response size estimate that the per-profile rate limiter divides by is the configured estimate, not the profile size limit", "C09-R25": "the pooled request information is given this request's device result on every path (shared with C03-R10): the per-profile rate limit and access settings applied are never those of the previous request that used the object", "C09-R24": "the generic rate-limit middleware of module dnsserver takes the client address through netutil.NetAddrToAddrPort too (which unmaps IPv4-mapped addresses): on a dual-stack socket an IPv4 client is keyed, counted and allowlisted as an IPv4 client", "C09-R23": "Backoff.isBackoff: a subnet is in backoff exactly when it has a hit counter whose value has reached the configured count (>=, the count-th over-limit event included)", "C09-R22": "the sliding window of a subnet is kept while the subnet is active: on every path of Backoff.hasHitRateLimit to the counting step the window is (re)stored in the expiring cache, so that its lifetime runs from the last use and not from the first", "C09-R21": "every key of the ratelimit section of the documented sample configuration config.dist.yaml (refuseany, counts, intervals, key lengths, allowlist, ...) is named by a yaml tag of the configuration structure: a documented setting that the decoder ignores leaves the limiter without it", "C09-R20": "backendpb.RateLimiter.Refresh replaces the allowlist with what the backend sent on every successful refresh, an empty list included (a subnet removed from the allowlist stops being exempt); a failed call leaves it alone", "C09-R19": "the rate-limiting middleware takes the peer address through netutil.NetAddrToAddrPort, which unmaps IPv4-mapped IPv6 addresses", "C09-R18": "serveDNSMsgInternal writes nothing when the handler returns nil without a response, so a query dropped by the limiter stays unanswered (tables shared with C01-R2 and C01-R3)", "C09-R17": "every path of the rate-limiting middleware that serves a plain-DNS query has asked the global limiter (the only implementation of refuse_any and of the allowlist) first", "C09-R16": "subnets converted between the backend, the internal and the file-cache representations keep their prefix length as it is (a /0 stays a /0)", "C09-R15": "NewBackoff: hit counters expire after Duration; request counters are cleaned up every Period and expire after Period or a maximum that C09-R27 decides", "C09-R14": "configuration objects handed to constructors that keep them are built per server (hand-off rule shared with C15-R6)", "C09-RC": "class rules (error chains, shadowed results, character classes, crossed arguments, pool constructors, array pools, loop completeness, loop-carried buffers, replacing setters, complete clones, Grow arithmetic, pooled-buffer escape, sorted searches, fresh decode targets, per-iteration objects, whole-message copies, codec guards) over the packages this property rests on", "C09-R13": "backendpb.RateLimitSettings.toInternal: the profile's own limiter exactly when present and enabled (an empty subnet list is not a reason to fall back to the global one)", "C09-R12": "DynamicAllowlist.IsAllowed: exempt exactly when some persistent or dynamic subnet contains the address; the dynamic part is read under the lock; constructor field map", "C09-R11": "list setters (DynamicAllowlist.Update, …) replace the list: no append onto the previous contents of the same field", "C09-R1": "middleware gate tables", "C09-R2": "limiter check order, family selection, keying", "C09-R3": "profile limiter table",
				"C09-R4": "window counter under its lock", "C09-R9": "builder wiring: the configured allowlist is the persistent part of the dynamic allowlist", "C09-R8": "the dynamic allowlist is replaced only after a successful load (a failed refresh keeps the previous allowlist)", "C09-R7": "window counter structure: the ring holds limit+1 time stamps; every event (also one that is dropped) is pushed before the oldest one is read; the event is above the limit iff the oldest kept stamp is set and within the interval", "C09-R5": "every estimated response is counted", "C09-R6": "configuration-to-limiter field map (each family's count, interval and key length under its own name)"},
		}})
}

func runC09(c *an.Ctx) {
	c.Floor("C09-R28", 1)
	c09SetProfilesStoresAsDelivered(c, "C09-R28")
	c.Floor("C09-R27", 1)
	c09WindowLifetimeCoversInterval(c, "C09-R27")
	c.Floor("C09-R26", 1)
	c.Borrow("C09-R26", runC14, func(o an.Obligation) bool { return o.Rule == "C14-R6" && strings.Contains(o.Key, "NewProfileStorage") })
	c.Floor("C09-R25", 1)
	c.Borrow("C09-R25", runC03, func(o an.Obligation) bool { return o.Rule == "C03-R10" && strings.Contains(o.Key, "newRequestInfo") })
	// ---- R24: the dnsserver-level middleware unmaps the client address as well
	c.Floor("C09-R24", 1)
	c09UnmappedRemoteIn(c, "C09-R24", "dnsserver/ratelimit.(*mwHandler).ServeDNS")
	// ---- R23: the backoff threshold
	c.Floor("C09-R23", 1)
	decide(c, "C09-R23", "dnsserver/ratelimit.(*Backoff).isBackoff", an.DecideCfg{
		Dom: an.Domain{"found": an.Bools, "hits": an.Ints(2, 3, 4), "p0.count": an.Ints(3)},
		OnCall: func(it *an.Interp, name string, args []an.AV) (an.AV, bool) {
			switch {
			case strings.HasSuffix(name, "go-cache.cache).Get"):
				if len(args) != 2 || !strings.Contains(args[0].String(), "hitCounters") || args[1].String() != "p1" {
					return an.Sym("lookup in another table or under another key"), true
				}
				if it.Feature("found").IsTrue() {
					return an.AV{Kind: an.KTuple, Tup: []an.AV{an.NonNil("ctr"), an.CBool(true)}}, true
				}
				return an.AV{Kind: an.KTuple, Tup: []an.AV{an.Nil(), an.CBool(false)}}, true
			case name == "(*sync/atomic.Uint64).Load":
				return it.Feature("hits"), true
			}
			return an.AV{}, false
		},
		Expect: func(f an.Features, o an.AOutcome) string {
			want := f.B("found") && f.I("hits") >= f.I("p0.count")
			if o.RetString() == fmt.Sprint(want) {
				return ""
			}
			return fmt.Sprintf("%v for a counter found=%v with %d hits against a count of %d", want, f.B("found"), f.I("hits"), f.I("p0.count"))
		},
	})
	// ---- R22: the window of an active subnet does not expire
	c.Floor("C09-R22", 1)
	c09WindowRenewed(c, "C09-R22")
	// ---- R21: the documented rate-limit settings are read by the configuration structure
	if n := sharedDistConfigKeys(c, "C09-R21", "ratelimit."); n < 8 {
		c.Und("C09-R21", "keys of config.dist.yaml", token.NoPos, "only %d key paths under ratelimit examined", n)
	}
	// ---- R20: every successful refresh replaces the allowlist
	c.Floor("C09-R20", 1)
	decide(c, "C09-R20", "backendpb.(*RateLimiter).Refresh", an.DecideCfg{
		Dom: an.Domain{"rpcerr": an.Bools},
		Inline: func(f *ssa.Function) bool {
			return strings.HasPrefix(an.FnKey(f), "backendpb.(*RateLimiter).Refresh$")
		},
		OnCall: func(it *an.Interp, name string, args []an.AV) (an.AV, bool) {
			switch {
			case name == "p0.client.GetRateLimitSettings":
				if it.Feature("rpcerr").IsTrue() {
					return an.AV{Kind: an.KTuple, Tup: []an.AV{an.Nil(), an.NonNil("rpcErr")}}, true
				}
				return an.AV{Kind: an.KTuple, Tup: []an.AV{an.NonNil("resp"), an.Nil()}}, true
			case name == "backendpb.cidrRangeToInternal":
				return an.Sym("prefixes(" + args[3].String() + ")"), true
			case name == "fmt.Errorf", strings.HasSuffix(name, "fixGRPCError"):
				return an.NonNil("wrapped"), true
			case name == "backendpb.ctxWithAuthentication":
				return an.NonNil("authctx"), true
			}
			return an.AV{}, false
		},
		Expect: func(f an.Features, o an.AOutcome) string {
			var upd []string
			for _, e := range o.Effects {
				if e.Kind == "call" && strings.HasSuffix(e.Name, "DynamicAllowlist).Update") && len(e.Args) == 2 && e.Args[0] == "p0.allowlist" {
					upd = append(upd, e.Args[1])
				}
			}
			if f.B("rpcerr") {
				if len(upd) == 0 && len(o.Ret) == 1 && o.Ret[0].Kind != an.KNil {
					return ""
				}
				return "an error and the allowlist left alone when the backend call fails"
			}
			if len(upd) == 1 && strings.HasPrefix(upd[0], "prefixes(") && strings.Contains(upd[0], "AllowedSubnets") {
				return ""
			}
			return "the allowlist replaced once with the converted subnets of the response, whatever their number; got " + fmt.Sprint(upd)
		},
	})
	classSweep(c, "C09")
	// ---- R19: the client's address is unmapped before it selects a bucket, an allowlist entry or a profile subnet
	c.Floor("C09-R19", 1)
	c09UnmappedRemote(c, "C09-R19")
	// ---- R18: a handler that returns without writing leaves a plain-DNS query unanswered: the server adds no
	// response of its own (tables of serveDNSMsgInternal, shared with C01-R2 / C01-R3)
	c.Floor("C09-R18", 2)
	c.Borrow("C09-R18", runC01, func(o an.Obligation) bool {
		return (o.Rule == "C01-R2" || o.Rule == "C01-R3") && strings.Contains(o.Key, "serveDNSMsgInternal")
	})
	// ---- R17: ANY refusal reaches every path that serves a plain-DNS query
	if n := c09AnyRefusal(c, "C09-R17"); n < 3 {
		c.Und("C09-R17", "serving paths of the rate-limiting middleware", token.NoPos, "only %d ServeDNS calls found in the serveWith…Ratelimiting functions", n)
	}
	// ---- R16: the subnets of the allowlist and of a profile's own limit keep their prefix length from the backend to the limiter
	if n := sharedPrefixLengthVerbatim(c, "C09-R16", "backendpb.", "profiledb/internal/filecachepb."); n < 2 {
		c.Und("C09-R16", "prefix lengths of converted subnets", token.NoPos, "only %d prefix-length operands found in backendpb and filecachepb", n)
	}
	// ---- R13: a profile's own limit is used exactly when it is present and enabled, whatever its client subnets are
	c.Floor("C09-R13", 3)
	if n := sharedCodecGuards(c, "C09-R13", nil, "backendpb.", "profiledb/internal/filecachepb."); n < 5 {
		c.Und("C09-R13", "early returns of the profile codecs", token.NoPos, "only %d early returns found", n)
	}
	decide(c, "C09-R13", "backendpb.(*RateLimitSettings).toInternal", an.DecideCfg{
		Dom: an.Domain{"p0": an.NilOrNot, "p0.Enabled": an.Bools},
		OnCall: func(it *an.Interp, name string, args []an.AV) (an.AV, bool) {
			switch {
			case strings.HasSuffix(name, "agd.NewDefaultRatelimiter"):
				return an.NonNil("own(" + args[0].String() + "," + args[1].String() + ")"), true
			case strings.HasSuffix(name, "backendpb.cidrRangeToInternal"):
				return an.Sym("nets(" + args[3].String() + ")"), true
			}
			return an.AV{}, false
		},
		Expect: func(f an.Features, o an.AOutcome) string {
			if len(o.Ret) != 1 {
				return "a limiter"
			}
			if f.IsNil("p0") || !f.B("p0.Enabled") {
				if o.Ret[0].Dyn == "agd.GlobalRatelimiter" {
					return ""
				}
				return "the global stub for absent or disabled settings; got " + o.RetString()
			}
			if !strings.HasPrefix(o.Ret[0].String(), "nonnil:own(") || !strings.HasSuffix(o.Ret[0].String(), ",p4)") {
				return "the profile's own limiter (an empty client-subnet list means all clients), sized with the response-size estimate; got " + o.RetString() + " " + o.Ret[0].Dyn
			}
			k := strings.TrimPrefix(strings.Split(strings.TrimPrefix(o.Ret[0].String(), "nonnil:own("), ",")[0], "&")
			if o.Mem[k+".RPS"].String() != "p0.Rps" || o.Mem[k+".ClientSubnets"].String() != "nets(p0.ClientCidr)" {
				return "limit and client subnets taken from the message's own fields; got RPS=" + o.Mem[k+".RPS"].String() + " subnets=" + o.Mem[k+".ClientSubnets"].String()
			}
			return ""
		},
	})
	// the same table for the file-cache decoder: what a restart restores is what the backend sent
	decide(c, "C09-R13", "profiledb/internal/filecachepb.(*Ratelimiter).toInternal", an.DecideCfg{
		Dom: an.Domain{"p0": an.NilOrNot, "p0.Enabled": an.Bools},
		OnCall: func(it *an.Interp, name string, args []an.AV) (an.AV, bool) {
			switch {
			case strings.HasSuffix(name, "agd.NewDefaultRatelimiter"):
				return an.NonNil("own(" + args[0].String() + "," + args[1].String() + ")"), true
			case strings.HasSuffix(name, "filecachepb.cidrRangeToInternal"):
				return an.Sym("nets(" + args[0].String() + ")"), true
			}
			return an.AV{}, false
		},
		Expect: func(f an.Features, o an.AOutcome) string {
			if len(o.Ret) != 1 {
				return "a limiter"
			}
			if f.IsNil("p0") || !f.B("p0.Enabled") {
				if o.Ret[0].Dyn == "agd.GlobalRatelimiter" {
					return ""
				}
				return "the global stub for absent or disabled settings (a disabled message restored as a limiter of its own has zero RPS and drops every query); got " + o.RetString()
			}
			if !strings.HasPrefix(o.Ret[0].String(), "nonnil:own(") || !strings.HasSuffix(o.Ret[0].String(), ",p1)") {
				return "the profile's own limiter (an empty client-subnet list means all clients), sized with the response-size estimate; got " + o.RetString() + " " + o.Ret[0].Dyn
			}
			k := strings.TrimPrefix(strings.Split(strings.TrimPrefix(o.Ret[0].String(), "nonnil:own("), ",")[0], "&")
			if o.Mem[k+".RPS"].String() != "p0.Rps" || o.Mem[k+".ClientSubnets"].String() != "nets(p0.ClientCidr)" {
				return "limit and client subnets taken from the message's own fields; got RPS=" + o.Mem[k+".RPS"].String() + " subnets=" + o.Mem[k+".ClientSubnets"].String()
			}
			return ""
		},
	})
	// ---- R14: each server's middleware gets its own configuration object (its pool reads the server's protocol lazily)
	c.Inf("C09-R14", "hand-off sweep", token.NoPos, "%d hand-offs of a fresh object to a function that keeps it examined in dnssvc and cmd", sharedRetainedArgs(c, "C09-R14", "dnssvc.", "cmd."))
	c.Floor("C09-R12", 3)
	c.Floor("C09-R15", 2)
	c09BackoffTables(c)
	c09AllowlistTable(c)
	// ---- R11: an allowlist refresh replaces the dynamic part (a subnet dropped by the source stops being exempt)
	if n := sharedReplaceNotAccumulate(c, "C09-R11", "dnsserver/ratelimit.", "consul.", "backendpb.", "agd."); n >= 1 {
		c.Ok("C09-R11", "list setters of the rate-limit code replace, never accumulate", token.NoPos, "%d slice-field stores in Update/Set/Reset methods examined", n)
	} else {
		c.Und("C09-R11", "list setters of the rate-limit code replace, never accumulate", token.NoPos, "no setter found (anchor: DynamicAllowlist.Update)")
	}
	dnssvcWiring(c, "C09-R10", func(dst, src string) bool {
		n := normName(dst) + " " + normName(src)
		return strings.Contains(n, "limiter") || strings.Contains(n, "ratelimit")
	}, 1)
	// ---- C09-R10: builder wiring of the components this property rests on
	c.Floor("C09-R10", 4)
	builderWiring(c, "C09-R10", map[string][]string{
		"initDNS|dnssvc.HandlersConfig":                 {"RateLimit"},
		"initRateLimiter|consul.AllowlistUpdaterConfig": nil,
		"initRateLimiter|backendpb.RateLimiterConfig":   nil,
	})
	c09AllowlistWiring(c)
	c09Allowlist(c)
	c09Window(c)
	c.Floor("C09-R1", 3)
	c.Floor("C09-R2", 2)
	c.Floor("C09-R3", 1)
	c.Floor("C09-R4", 2)
	c.Floor("C09-R5", 2)
	const mw = "dnssvc/internal/ratelimitmw.(*Middleware)."

	served := func(o an.AOutcome) (next []string, writes []string, counted []string) {
		for _, e := range o.Effects {
			if e.Kind != "call" {
				continue
			}
			switch {
			case e.Name == "p5.ServeDNS":
				next = append(next, strings.Join(e.Args, ","))
			case e.Name == "p2.WriteMsg":
				writes = append(writes, strings.Join(e.Args, ","))
			case strings.HasSuffix(e.Name, ".CountResponses"):
				counted = append(counted, e.Name+"("+strings.Join(e.Args, ",")+")")
			}
		}
		return next, writes, counted
	}
	common := func(it *an.Interp, name string, args []an.AV) (an.AV, bool) {
		switch {
		case name == "dnsserver.NewNonWriterResponseWriter":
			return an.NonNil("nrw"), true
		case name == "p5.ServeDNS":
			if it.Feature("nexterr").IsTrue() {
				return an.NonNil("nextErr"), true
			}
			return an.Nil(), true
		case strings.HasSuffix(name, "NonWriterResponseWriter).Msg"):
			if it.Feature("resp").IsTrue() {
				return an.NonNil("resp"), true
			}
			return an.Nil(), true
		case name == "p2.WriteMsg":
			return an.Nil(), true
		case name == "fmt.Errorf":
			return an.NonNil("wrapped"), true
		}
		return an.AV{}, false
	}

	// ---- R1a serveWithRatelimiting
	decide(c, "C09-R1", mw+"serveWithRatelimiting", an.DecideCfg{
		Dom: an.Domain{"limited": an.Bools, "proferr": an.Bools, "shouldreturn": an.Bools, "nexterr": an.Bools, "resp": an.Bools},
		OnCall: func(it *an.Interp, name string, args []an.AV) (an.AV, bool) {
			switch {
			case strings.HasPrefix(name, "slices.Contains"):
				if args[0].String() == "p0.protos" && args[1].String() == "p4.Proto" {
					return it.Feature("limited"), true
				}
				return an.Sym("protocol gate on other data"), true
			case strings.HasSuffix(name, ").serveWithProfileRatelimiting"):
				if it.Feature("proferr").IsTrue() {
					return an.AV{Kind: an.KTuple, Tup: []an.AV{it.Feature("shouldreturn"), an.NonNil("profErr")}}, true
				}
				return an.AV{Kind: an.KTuple, Tup: []an.AV{it.Feature("shouldreturn"), an.Nil()}}, true
			case strings.HasSuffix(name, ").serveWithGlobalRatelimiting"):
				return an.Sym("global"), true
			}
			return common(it, name, args)
		},
		Expect: func(f an.Features, o an.AOutcome) string {
			next, _, _ := served(o)
			prof := o.HasCall("(*dnssvc/internal/ratelimitmw.Middleware).serveWithProfileRatelimiting")
			glob := o.HasCall("(*dnssvc/internal/ratelimitmw.Middleware).serveWithGlobalRatelimiting")
			switch {
			case !f.B("limited"):
				if len(next) == 1 && next[0] == "p1,p2,p3" && !prof && !glob {
					return ""
				}
				return "protocols that are not rate limited go straight to the next stage"
			case f.B("proferr"):
				if prof && !glob && len(next) == 0 && o.Ret[0].Kind != an.KNil {
					return ""
				}
				return "an error of the profile limiter path is returned without global limiting"
			case f.B("shouldreturn"):
				if prof && !glob && len(next) == 0 && o.Ret[0].Kind == an.KNil {
					return ""
				}
				return "a request settled by the profile limiter (served or dropped) is not processed again"
			default:
				if prof && glob && len(next) == 0 && o.RetString() == "global" {
					return ""
				}
				return "fall through to the global limiter"
			}
		},
	})

	// ---- R1b global
	decide(c, "C09-R1", mw+"serveWithGlobalRatelimiting", an.DecideCfg{
		Dom: an.Domain{"rlerr": an.Bools, "drop": an.Bools, "allow": an.Bools, "nexterr": an.Bools, "resp": an.Bools},
		OnCall: func(it *an.Interp, name string, args []an.AV) (an.AV, bool) {
			if name == "p0.limiter.IsRateLimited" {
				if len(args) != 3 || args[1].String() != "p3" || args[2].String() != "p4.RemoteIP" {
					return an.Sym("limiter consulted with other data"), true
				}
				e := an.Nil()
				if it.Feature("rlerr").IsTrue() {
					e = an.NonNil("rlErr")
				}
				return an.AV{Kind: an.KTuple, Tup: []an.AV{it.Feature("drop"), it.Feature("allow"), e}}, true
			}
			return common(it, name, args)
		},
		Expect: func(f an.Features, o an.AOutcome) string {
			next, writes, counted := served(o)
			switch {
			case f.B("rlerr"):
				if len(next)+len(writes)+len(counted) == 0 && o.Ret[0].Kind != an.KNil {
					return ""
				}
				return "an error and nothing else when the limiter fails"
			case f.B("drop"):
				if len(next)+len(writes)+len(counted) == 0 && o.Ret[0].Kind == an.KNil {
					return ""
				}
				return "a dropped request: no next stage, no response, no error"
			case f.B("allow"):
				if len(next) == 1 && next[0] == "p1,p2,p3" && len(counted) == 0 {
					return ""
				}
				return "an allowlisted client served directly and not counted"
			}
			if len(next) != 1 || next[0] != "p1,nonnil:nrw,p3" {
				return "the request served into a non-writing recorder"
			}
			if f.B("nexterr") || !f.B("resp") {
				if len(writes)+len(counted) == 0 {
					return ""
				}
				return "nothing counted or written without a response"
			}
			if len(counted) == 1 && counted[0] == "p0.limiter.CountResponses(p1,nonnil:resp,p4.RemoteIP)" && len(writes) == 1 && writes[0] == "p1,p3,nonnil:resp" {
				ci, wi := -1, -1
				for i, e := range o.Effects {
					if strings.HasSuffix(e.Name, ".CountResponses") {
						ci = i
					}
					if e.Name == "p2.WriteMsg" {
						wi = i
					}
				}
				if ci < wi {
					return ""
				}
			}
			return "the response counted against the client's address and then written once; got " + fmt.Sprint(counted, writes)
		},
	})

	// ---- R1c profile
	rr := func(n string) int64 { v, _ := c.ConstInt("agd", n); return v }
	rDrop, rGlobal, rPass := rr("RatelimitResultDrop"), rr("RatelimitResultUseGlobal"), rr("RatelimitResultPass")
	decide(c, "C09-R1", mw+"serveWithProfileRatelimiting", an.DecideCfg{
		Dom: an.Domain{"prof": an.NilOrNot, "check": an.Ints(rDrop, rGlobal, rPass), "nexterr": an.Bools, "resp": an.Bools},
		OnCall: func(it *an.Interp, name string, args []an.AV) (an.AV, bool) {
			switch {
			case strings.HasSuffix(name, "(*agd.RequestInfo).DeviceData"):
				p := it.Feature("prof")
				if p.Kind == an.KNonNil {
					p.Key = "prof"
				}
				return an.AV{Kind: an.KTuple, Tup: []an.AV{p, an.NonNil("dev")}}, true
			case name == "prof.Ratelimiter.Check":
				if len(args) != 3 || args[1].String() != "p3" || args[2].String() != "p4.RemoteIP" {
					return an.Sym("profile limiter consulted with other data"), true
				}
				return it.Feature("check"), true
			}
			return common(it, name, args)
		},
		Expect: func(f an.Features, o an.AOutcome) string {
			next, writes, counted := served(o)
			none := len(next)+len(writes)+len(counted) == 0
			if f.IsNil("prof") {
				if none && o.RetString() == "false, nil" {
					return ""
				}
				return "(false, nil) for requests without a profile"
			}
			switch f.I("check") {
			case rDrop:
				if none && o.RetString() == "true, nil" {
					return ""
				}
				return "a dropped request: (true, nil), no next stage, no response"
			case rGlobal:
				if none && o.RetString() == "false, nil" {
					return ""
				}
				return "(false, nil) so that the global limiter decides"
			}
			if len(next) != 1 || next[0] != "p1,nonnil:nrw,p3" {
				return "the request served into a non-writing recorder"
			}
			if f.B("nexterr") || !f.B("resp") {
				if len(writes)+len(counted) == 0 && o.Ret[0].IsTrue() {
					return ""
				}
				return "nothing counted or written without a response"
			}
			if len(counted) == 1 && counted[0] == "prof.Ratelimiter.CountResponses(p1,nonnil:resp,p4.RemoteIP)" && len(writes) == 1 && writes[0] == "p1,p3,nonnil:resp" && o.Ret[0].IsTrue() {
				return ""
			}
			return "the response counted against the profile's limiter and written once"
		},
	})

	// ---- R2 Backoff.IsRateLimited
	typeANY, _ := c.ConstInt("github.com/miekg/dns", "TypeANY")
	const bo = "dnsserver/ratelimit.(*Backoff)."
	decide(c, "C09-R2", bo+"IsRateLimited", an.DecideCfg{
		Dom: an.Domain{"addrerr": an.Bools, "p0.refuseANY": an.Bools, "p2.Question[0].Qtype": an.Ints(1, typeANY), "alerr": an.Bools,
			"allowed": an.Bools, "backoff": an.Bools, "is6": an.Bools, "hit": an.Bools},
		OnCall: func(it *an.Interp, name string, args []an.AV) (an.AV, bool) {
			switch {
			case name == "dnsserver/ratelimit.validateAddr":
				if it.Feature("addrerr").IsTrue() {
					return an.NonNil("addrErr"), true
				}
				return an.Nil(), true
			case name == "p0.allowlist.IsAllowed":
				e := an.Nil()
				if it.Feature("alerr").IsTrue() {
					e = an.NonNil("alErr")
				}
				return an.AV{Kind: an.KTuple, Tup: []an.AV{it.Feature("allowed"), e}}, true
			case name == "(*dnsserver/ratelimit.Backoff).subnetKey":
				return an.Sym("key(" + args[1].String() + ")"), true
			case name == "(*dnsserver/ratelimit.Backoff).isBackoff":
				if args[1].String() != "key(p3)" {
					return an.Sym("backoff table keyed by " + args[1].String()), true
				}
				return it.Feature("backoff"), true
			case name == "(net/netip.Addr).Is6":
				return it.Feature("is6"), true
			case name == "(*dnsserver/ratelimit.Backoff).hasHitRateLimit":
				return an.Sym("window(" + args[1].String() + "," + args[2].String() + "," + args[3].String() + ")"), true
			}
			return an.AV{}, false
		},
		Expect: func(f an.Features, o an.AOutcome) string {
			idx := func(n string) int { return o.CallIndex(n) }
			want := ""
			switch {
			case f.B("addrerr"):
				want = "false, false, nonnil:addrErr"
			case f.B("p0.refuseANY") && f.I("p2.Question[0].Qtype") == typeANY:
				want = "true, false, nil"
				if idx("p0.allowlist.IsAllowed") >= 0 {
					return "ANY queries refused before the allowlist is consulted"
				}
			case f.B("alerr"):
				want = "false, false, nonnil:alErr"
			case f.B("allowed"):
				want = "false, true, nil"
				if idx("(*dnsserver/ratelimit.Backoff).isBackoff") >= 0 || idx("(*dnsserver/ratelimit.Backoff).hasHitRateLimit") >= 0 {
					return "allowlisted clients never touch the backoff table or the window"
				}
			case f.B("backoff"):
				want = "true, false, nil"
				if idx("(*dnsserver/ratelimit.Backoff).hasHitRateLimit") >= 0 {
					return "a subnet in backoff is dropped without counting"
				}
			default:
				if f.B("is6") {
					want = "window(key(p3),p0.ipv6Count,p0.ipv6Interval), false, nil"
				} else {
					want = "window(key(p3),p0.ipv4Count,p0.ipv4Interval), false, nil"
				}
			}
			if o.RetString() == want {
				return ""
			}
			return want
		},
	})
	c09GetOrCreate(c, "C09-R2", bo+"incBackoff", bo+"hasHitRateLimit")
	decide(c, "C09-R2", bo+"subnetKey", an.DecideCfg{
		Dom: an.Domain{"is4": an.Bools, "preferr": an.Bools},
		OnCall: func(it *an.Interp, name string, args []an.AV) (an.AV, bool) {
			switch name {
			case "(net/netip.Addr).Is4":
				return it.Feature("is4"), true
			case "(net/netip.Addr).Is6":
				return an.CBool(!it.Feature("is4").IsTrue()), true
			case "(net/netip.Addr).Prefix":
				e := an.Nil()
				if it.Feature("preferr").IsTrue() {
					e = an.NonNil("prefErr")
				}
				return an.AV{Kind: an.KTuple, Tup: []an.AV{an.Sym("prefix(" + args[0].String() + "," + args[1].String() + ")"), e}}, true
			case "(net/netip.Prefix).String":
				return an.Sym("str(" + args[0].String() + ")"), true
			}
			return an.AV{}, false
		},
		Expect: func(f an.Features, o an.AOutcome) string {
			if f.B("preferr") {
				if o.Exit == "panic" {
					return ""
				}
				return "a panic when the prefix cannot be computed (excluded by validation, C20)"
			}
			want := "str(prefix(p1,p0.ipv6SubnetKeyLen))"
			if f.B("is4") {
				want = "str(prefix(p1,p0.ipv4SubnetKeyLen))"
			}
			if o.RetString() == want {
				return ""
			}
			return want + " (the address masked with the key length of its own family)"
		},
	})

	// ---- R6 the configured limits reach the limiter under their own name and family
	c.Floor("C09-R6", 20)
	checkFieldMap(c, "C09-R6", "cmd.(*rateLimitConfig).toInternal", "dnsserver/ratelimit.BackoffConfig", map[string]string{
		"ResponseSizeEstimate": ".ResponseSizeEstimate", "Duration": ".BackoffDuration.Duration", "Period": ".BackoffPeriod.Duration", "Count": ".BackoffCount",
		"IPv4Count": ".IPv4.Count", "IPv4Interval": ".IPv4.Interval.Duration", "IPv4SubnetKeyLen": ".IPv4.SubnetKeyLen",
		"IPv6Count": ".IPv6.Count", "IPv6Interval": ".IPv6.Interval.Duration", "IPv6SubnetKeyLen": ".IPv6.SubnetKeyLen", "RefuseANY": ".RefuseANY"})
	checkFieldMap(c, "C09-R6", "dnsserver/ratelimit.NewBackoff", "dnsserver/ratelimit.Backoff", map[string]string{
		"respSzEst": ".ResponseSizeEstimate", "count": ".Count", "ipv4Count": ".IPv4Count", "ipv4Interval": ".IPv4Interval", "ipv4SubnetKeyLen": ".IPv4SubnetKeyLen",
		"ipv6Count": ".IPv6Count", "ipv6Interval": ".IPv6Interval", "ipv6SubnetKeyLen": ".IPv6SubnetKeyLen", "refuseANY": ".RefuseANY", "allowlist": ".Allowlist"})

	// ---- R3 profile limiter
	decide(c, "C09-R3", "agd.(*DefaultRatelimiter).Check", an.DecideCfg{
		Dom: an.Domain{"len(p0.clientSubnets)": an.Ints(0, 2), "contains": an.Bools, "above": an.Bools},
		OnCall: func(it *an.Interp, name string, args []an.AV) (an.AV, bool) {
			switch {
			case strings.HasSuffix(name, "SliceSubnetSet).Contains"):
				if args[1].String() != "p3" {
					return an.Sym("subnet test on other data"), true
				}
				return it.Feature("contains"), true
			case name == "(*dnsserver/ratelimit.RequestCounter).Add":
				return it.Feature("above"), true
			}
			return an.AV{}, false
		},
		Expect: func(f an.Features, o an.AOutcome) string {
			want := rPass
			switch {
			case f.I("len(p0.clientSubnets)") > 0 && !f.B("contains"):
				want = rGlobal
				if o.HasCall("(*dnsserver/ratelimit.RequestCounter).Add") {
					return "clients outside the profile's subnets are not counted by the profile limiter"
				}
			case f.B("above"):
				want = rDrop
			}
			if o.RetString() == fmt.Sprint(want) {
				return ""
			}
			return fmt.Sprintf("result %d (1 pass, 2 drop, 3 use global as declared in agd)", want)
		},
	})

	// ---- R4 counter under its lock
	cache := map[*ssa.Function]map[ssa.Instruction]an.Held{}
	for _, fn := range c.FnsMatching("dnsserver/ratelimit.(*RequestCounter).") {
		if c.IsTestFile(fn.Pos()) {
			continue
		}
		an.Instrs(fn, func(in ssa.Instruction) {
			fa, ok := in.(*ssa.FieldAddr)
			if !ok {
				return
			}
			typ, field, _, ok := an.FieldOf(fa)
			if !ok || typ != "dnsserver/ratelimit.RequestCounter" || field == "mu" {
				return
			}
			key := an.FnKey(fn) + " touches " + field
			if m, why := c.HeldAt(in, "mu", 1, cache); m == "" {
				c.Bad("C09-R4", key, fa.Pos(), "the window counter is accessed without its mutex: %s", why)
			} else {
				c.Ok("C09-R4", key, fa.Pos(), "mu held")
			}
		})
	}

	// ---- R5 CountResponses counts every estimated response
	for _, k := range []string{bo + "CountResponses", "agd.(*DefaultRatelimiter).CountResponses"} {
		fn := c.Fn(k)
		if fn == nil {
			c.Und("C09-R5", k, token.NoPos, "anchor not found")
			continue
		}
		c.Analysed(k)
		var counting []*ssa.Call
		for _, call := range an.Calls(fn) {
			n := an.Short(an.CalleeName(call))
			if n == "(*dnsserver/ratelimit.Backoff).IsRateLimited" || n == "(*dnsserver/ratelimit.RequestCounter).Add" || n == "(*agd.DefaultRatelimiter).Check" {
				if cv, ok := call.(*ssa.Call); ok {
					counting = append(counting, cv)
				}
			}
		}
		if len(counting) != 1 || !an.CanReach(counting[0], counting[0]) {
			c.Bad("C09-R5", k, fn.Pos(), "the responses are not counted one event per estimated response in a loop")
			continue
		}
		// the verdict must not influence control flow
		used := false
		var visit func(v ssa.Value, d int)
		visit = func(v ssa.Value, d int) {
			if v.Referrers() == nil || d > 4 {
				return
			}
			for _, r := range *v.Referrers() {
				switch u := r.(type) {
				case *ssa.If:
					used = true
				case ssa.Value:
					visit(u, d+1)
				}
			}
		}
		visit(counting[0], 0)
		c.Check(!used, "C09-R5", k, counting[0].Pos(), "one counted event per estimated response; the verdict does not end the loop",
			"the counting loop stops (or branches) on the limiter's verdict: a large response records fewer events than its size estimate, so amplifying clients never reach the backoff threshold")
	}
}

// c09Window checks the structure of the sliding-window counter.
func c09Window(c *an.Ctx) {
	c.Floor("C09-R7", 2)
	const rc = "dnsserver/ratelimit."
	decide(c, "C09-R7", rc+"NewRequestCounter", an.DecideCfg{
		Dom: an.Domain{},
		OnCall: func(it *an.Interp, name string, args []an.AV) (an.AV, bool) {
			if strings.HasSuffix(name, "container.NewRingBuffer") {
				return an.NonNil("ring(" + args[0].String() + ")"), true
			}
			return an.AV{}, false
		},
		Expect: func(f an.Features, o an.AOutcome) string {
			if len(o.Ret) != 1 {
				return "a counter"
			}
			k := strings.TrimPrefix(o.Ret[0].String(), "&")
			if got := o.Mem[k+".ring"].String(); got != "nonnil:ring((p0 + 1))" && got != "nonnil:ring((1 + p0))" {
				return "a ring of limit+1 time stamps (the oldest kept stamp is the one 'limit' events before the current one); got " + got
			}
			if got := o.Mem[k+".ivl"].String(); got != "p1" {
				return "the configured interval; got " + got
			}
			return ""
		},
	})
	decide(c, "C09-R7", rc+"(*RequestCounter).Add", an.DecideCfg{
		Dom: an.Domain{"(0 < tail)": an.Bools, "(p0.ivl < (ts - tail))": an.Bools},
		OnCall: func(it *an.Interp, name string, args []an.AV) (an.AV, bool) {
			switch {
			case name == "(time.Time).UnixNano":
				if args[0].String() != "p1" {
					return an.Sym("time stamp of something else"), true
				}
				return an.Sym("ts"), true
			case strings.HasSuffix(name, "RingBuffer[T]).Current"):
				return an.Sym("tail"), true
			case strings.HasSuffix(name, "RingBuffer[T]).Push"):
				return an.Nil(), true
			}
			return an.AV{}, false
		},
		Expect: func(f an.Features, o an.AOutcome) string {
			push, cur, lock := -1, -1, -1
			pushes := 0
			for i, e := range o.Effects {
				if e.Kind != "call" {
					continue
				}
				switch {
				case e.Name == "(*sync.Mutex).Lock":
					lock = i
				case strings.HasSuffix(e.Name, "RingBuffer[T]).Push"):
					pushes++
					push = i
					if e.Args[1] != "ts" {
						return "this event's time stamp pushed; got " + e.Args[1]
					}
				case strings.HasSuffix(e.Name, "RingBuffer[T]).Current"):
					if cur < 0 {
						cur = i
					}
				}
			}
			if lock != 0 {
				return "the counter's mutex taken first"
			}
			if pushes != 1 || cur < push {
				return fmt.Sprintf("every event recorded exactly once, before the oldest kept stamp is read (a dropped event still counts towards the window); %d pushes", pushes)
			}
			want := f.B("(0 < tail)") && !f.B("(p0.ivl < (ts - tail))")
			if o.RetString() != fmt.Sprint(want) {
				return fmt.Sprintf("%v (above the limit iff the stamp 'limit' events ago is set and no older than the interval); got %s", want, o.RetString())
			}
			return ""
		},
	})
}

// c09Allowlist checks that a failed refresh of the Consul allowlist keeps the
// previous allowlist: the Update call is reached only through the success
// branch of the load's error check.
func c09Allowlist(c *an.Ctx) {
	c.Floor("C09-R8", 1)
	const k = "consul.(*AllowlistUpdater).Refresh"
	fn := c.Fn(k)
	if fn == nil {
		c.Und("C09-R8", k, token.NoPos, "anchor not found")
		return
	}
	c.Analysed(k)
	n := 0
	for _, call := range an.Calls(fn) {
		if _, isDefer := call.(*ssa.Defer); isDefer {
			continue
		}
		if strings.HasSuffix(an.CalleeName(call), "DynamicAllowlist).Update") || (call.Common().IsInvoke() && call.Common().Method.Name() == "Update") {
			n++
			c13Commit(c, "C09-R8", fn, "allowlist replacement", call, func(name string) bool {
				return strings.Contains(name, "Logger).") || strings.HasPrefix(name, "fmt.") || strings.Contains(name, ".metrics.") || strings.HasSuffix(name, "errcoll.Collect")
			})
		}
	}
	if n == 0 {
		c.Und("C09-R8", k+" commit", fn.Pos(), "the allowlist Update call was not found")
	}
}

// c09AllowlistWiring checks the construction of the rate-limit allowlist in the
// builder: the statically configured subnets are the persistent part (first
// argument of NewDynamicAllowlist), which refreshes never replace.
func c09AllowlistWiring(c *an.Ctx) {
	c.Floor("C09-R9", 1)
	const k = "cmd.(*builder).initRateLimiter"
	fn := c.Fn(k)
	if fn == nil {
		c.Und("C09-R9", k, token.NoPos, "anchor not found")
		return
	}
	c.Analysed(k)
	calls := an.CallsTo(fn, "dnsserver/ratelimit.NewDynamicAllowlist")
	if len(calls) != 1 {
		c.Und("C09-R9", k+" allowlist", fn.Pos(), "expected one NewDynamicAllowlist call, found %d", len(calls))
		return
	}
	args := calls[0].Common().Args
	fromConf := false
	w := &an.Walker{P: c.Prog, NoFieldJoin: true,
		Visit: func(v ssa.Value) bool {
			if ap, ok := an.AccessPath(v); ok && strings.HasSuffix(ap, ".Allowlist.List") {
				fromConf = true
				return true
			}
			return false
		},
		ThroughCalls: func(cl *ssa.Call) ([]ssa.Value, bool) { return cl.Call.Args, true },
	}
	w.Walk(args[0])
	c.Check(fromConf && an.IsNilConst(args[1]), "C09-R9", k+" static allowlist", calls[0].Pos(),
		"the configured subnets form the persistent part of the allowlist; the dynamic part starts empty",
		"the configured allowlist is not passed as the persistent part (or the dynamic part is pre-filled): the first refresh replaces the operator's entries and allowlisted clients are rate limited")
}

// c09GetOrCreate checks the get-or-create idiom on the expiring tables of the
// backoff limiter: an entry that was found is never inserted again (go-cache's
// Set/SetDefault restart the entry's expiry, so re-inserting the hit counter on
// every hit keeps a client in backoff for as long as it keeps sending, and
// re-inserting the window counter would keep it past its period), and a
// missing entry is inserted.
func c09GetOrCreate(c *an.Ctx, rule string, fnNames ...string) {
	for _, name := range fnNames {
		fn := c.Fn(name)
		if fn == nil {
			c.Und(rule, name+" get-or-create", token.NoPos, "anchor not found")
			continue
		}
		c.Analysed(name)
		var gets []*ssa.Call
		for _, call := range an.Calls(fn) {
			if cl, ok := call.(*ssa.Call); ok && strings.HasSuffix(an.CalleeName(call), "go-cache.cache).Get") {
				gets = append(gets, cl)
			}
		}
		if len(gets) != 1 {
			c.Und(rule, name+" get-or-create", fn.Pos(), "expected one table lookup, found %d", len(gets))
			continue
		}
		get := gets[0]
		table, _ := an.AccessPath(get.Call.Args[0])
		inserts := 0
		for _, call := range an.Calls(fn) {
			n := an.CalleeName(call)
			if !(strings.HasSuffix(n, "go-cache.cache).Set") || strings.HasSuffix(n, "go-cache.cache).SetDefault") || strings.HasSuffix(n, "go-cache.cache).Add") || strings.HasSuffix(n, "go-cache.cache).Replace")) {
				continue
			}
			if t, _ := an.AccessPath(call.Common().Args[0]); t != table {
				continue
			}
			inserts++
			// the entry lives for the table's own period: SetDefault, or Set with the default expiration (0)
			defaultTTL := strings.HasSuffix(n, ").SetDefault")
			if !defaultTTL && len(call.Common().Args) == 4 {
				if k, isK := an.ConstInt(call.Common().Args[3]); isK && k == 0 {
					defaultTTL = true
				}
			}
			if !defaultTTL && strings.Contains(table, ".reqCounters") && len(call.Common().Args) == 4 {
				// the request windows are stored again on every use (R22): a lifetime of one counting interval after
				// the last use is as good as the table's own, since every event of an older window is out of date
				if pa, ok := call.Common().Args[3].(*ssa.Parameter); ok && pa.Name() == "ivl" {
					defaultTTL = true
				}
			}
			c.Check(defaultTTL, rule, name+" inserts into "+table+" with the table's own expiration", call.Pos(),
				"the entry expires after the period the table was created with",
				"the entry is inserted with an expiration of its own: the window counter (or the hit counter) is dropped and restarted after that time, whatever the configured period")
			onMiss := false
			for _, e := range an.DominatingConds(call.Block()) {
				cond := e.If.Cond
				branch := e.Branch
				if u, ok := cond.(*ssa.UnOp); ok && u.Op == token.NOT {
					cond, branch = u.X, !branch
				}
				if ex, ok := cond.(*ssa.Extract); ok && ex.Tuple == ssa.Value(get) && ex.Index == 1 && !branch {
					onMiss = true
				}
			}
			if strings.Contains(table, ".reqCounters") {
				// the sliding window is stored again on every use, so that an active subnet keeps it (rule R22, F55);
				// restarting the expiry is the point there
				c.Ok(rule, name+" inserts into "+table+" only when the entry is missing", call.Pos(), "not demanded for the request windows: R22 demands the opposite (the window is stored again on every use)")
				continue
			}
			c.Check(onMiss, rule, name+" inserts into "+table+" only when the entry is missing", call.Pos(),
				"the table entry is inserted only on the lookup's miss edge",
				"the entry is (re-)inserted into "+table+" also when it was found: the insertion restarts its expiry")
		}
		if inserts == 0 {
			c.Bad(rule, name+" inserts into "+table+" only when the entry is missing", fn.Pos(), "a missing entry is never inserted into "+table)
		}
	}
}

// c09AllowlistTable holds the table of the two-part allowlist: an address is exempt
// exactly when some persistent or some dynamic subnet contains it, every subnet
// of both parts is consulted, the dynamic part is read under the read lock, and
// the constructor puts each list into its own field.
func c09AllowlistTable(c *an.Ctx) {
	const fnKey = "dnsserver/ratelimit.(*DynamicAllowlist).IsAllowed"
	dom := an.Domain{"len(p0.persistent)": an.Ints(0, 1, 2), "len(p0.dynamic)": an.Ints(0, 1, 2)}
	for _, part := range []string{"persistent", "dynamic"} {
		for i := 0; i < 2; i++ {
			dom[fmt.Sprintf("in:p0.%s[%d]", part, i)] = an.Bools
		}
	}
	decide(c, "C09-R12", fnKey, an.DecideCfg{
		Dom: dom,
		OnCall: func(it *an.Interp, name string, args []an.AV) (an.AV, bool) {
			if name == "(net/netip.Prefix).Contains" {
				if args[1].String() != "p2" {
					return an.Sym("membership of " + args[1].String()), true
				}
				return it.Feature("in:" + args[0].String()), true
			}
			return an.AV{}, false
		},
		Expect: func(f an.Features, o an.AOutcome) string {
			want := false
			for _, part := range []string{"persistent", "dynamic"} {
				for i := int64(0); i < f.I("len(p0."+part+")"); i++ {
					if f.B(fmt.Sprintf("in:p0.%s[%d]", part, i)) {
						want = true
					}
				}
			}
			if o.RetString() != fmt.Sprintf("%v, nil", want) {
				return fmt.Sprintf("allowed=%v (some subnet of either part contains the address; every subnet is consulted); got %s", want, o.RetString())
			}
			return ""
		},
	})
	checkFieldMap(c, "C09-R12", "dnsserver/ratelimit.NewDynamicAllowlist", "dnsserver/ratelimit.DynamicAllowlist", map[string]string{"persistent": "p0", "dynamic": "p1"})
	// the dynamic part is read with the lock held
	if fn := c.Fn(fnKey); fn != nil {
		held := an.HeldLocks(fn)
		n, bad := 0, ""
		an.Instrs(fn, func(in ssa.Instruction) {
			ld, ok := in.(*ssa.UnOp)
			if !ok || ld.Op != token.MUL {
				return
			}
			if typ, field, _, ok := an.FieldOf(ld.X); ok && typ == "dnsserver/ratelimit.DynamicAllowlist" && field == "dynamic" {
				n++
				if h := held[in]; len(h) == 0 {
					bad = "the dynamic list is read without the lock"
				}
			}
		})
		c.Check(n > 0 && bad == "", "C09-R12", fnKey+" reads the dynamic part under its lock", fn.Pos(), "read under the lock that Update takes", bad)
	}
}

// c09BackoffTables: the two expiring tables of the backoff limiter are created
// with their own periods: request counters live for the counting period, hit
// counters for the backoff duration (both as expiry and as clean-up interval).
func c09BackoffTables(c *an.Ctx) {
	const k = "dnsserver/ratelimit.NewBackoff"
	fn := c.Fn(k)
	if fn == nil {
		c.Und("C09-R15", k+" table lifetimes", token.NoPos, "anchor not found")
		return
	}
	c.Analysed(k)
	want := map[string]string{"reqCounters": ".Period", "hitCounters": ".Duration"}
	got := map[string]string{}
	an.Instrs(fn, func(in ssa.Instruction) {
		st, ok := in.(*ssa.Store)
		if !ok {
			return
		}
		typ, field, _, ok := an.FieldOf(st.Addr)
		if !ok || typ != "dnsserver/ratelimit.Backoff" || want[field] == "" {
			return
		}
		call, ok := st.Val.(*ssa.Call)
		if !ok || !strings.HasSuffix(an.CalleeName(call), "go-cache.New") {
			got[field] = "not a cache.New call"
			return
		}
		var as []string
		for _, a := range call.Call.Args {
			ap, _ := an.AccessPath(a)
			as = append(as, ap)
		}
		got[field] = strings.Join(as, ",")
	})
	for field, suffix := range want {
		g := got[field]
		parts := strings.Split(g, ",")
		ok := len(parts) == 2 && strings.HasSuffix(parts[0], suffix) && strings.HasSuffix(parts[1], suffix)
		if field == "reqCounters" && len(parts) == 2 && parts[0] == "call:builtin.max" && strings.HasSuffix(parts[1], suffix) {
			// the expiry of the request windows is the longest of the period and the counting intervals; which
			// values go into the maximum is decided by C09-R27 (the period alone was the defect F67)
			ok = true
		}
		c.Check(ok, "C09-R15", k+" "+field+" lifetime", fn.Pos(), "expiry and clean-up interval from "+suffix,
			"the table is created with ("+g+") instead of its own period "+suffix+" twice")
	}
}

// c09AnyRefusal: refuse_any and the allowlist live in one place, the global
// limiter's IsRateLimited.  A path of the rate-limiting middleware that hands a
// plain-DNS query to the next handler without having asked the global limiter
// (or having looked at the question type itself) answers ANY queries although
// refusal is configured.  Every ServeDNS call in the serveWith…Ratelimiting
// functions must be dominated by an IsRateLimited call or by a comparison of
// the question type with ANY.
func c09AnyRefusal(c *an.Ctx, rule string) (examined int) {
	for _, fn := range c.AllFns {
		k := an.FnKey(fn)
		if fn.Blocks == nil || !strings.HasPrefix(k, "dnssvc/internal/ratelimitmw.(*Middleware).serveWith") || !strings.HasSuffix(k, "Ratelimiting") ||
			k == "dnssvc/internal/ratelimitmw.(*Middleware).serveWithRatelimiting" {
			continue
		}
		var gates []ssa.Instruction
		for _, call := range an.Calls(fn) {
			if strings.HasSuffix(an.CalleeName(call), ".IsRateLimited") {
				gates = append(gates, call)
			}
		}
		an.Instrs(fn, func(in ssa.Instruction) {
			if b, ok := in.(*ssa.BinOp); ok && (b.Op == token.EQL || b.Op == token.NEQ) {
				for _, op := range []ssa.Value{b.X, b.Y} {
					if k, isConst := an.ConstInt(op); isConst && k == 255 {
						gates = append(gates, b)
					}
				}
			}
		})
		n := 0
		for _, call := range an.Calls(fn) {
			if !call.Common().IsInvoke() || call.Common().Method.Name() != "ServeDNS" {
				continue
			}
			n++
			examined++
			c.Analysed(k)
			ok := false
			for _, g := range gates {
				if an.Dominates(g, call) {
					ok = true
				}
			}
			c.Check(ok, rule, fmt.Sprintf("%s serves only after the global limiter's verdict (serve #%d)", k, n), call.Pos(),
				"the next handler is reached only after IsRateLimited (refuse_any, allowlist) or a test of the question type",
				"the next handler is called without the global limiter having been asked: refuse_any is implemented only in its IsRateLimited, so an ANY query on this path is answered although refusal is configured")
		}
	}
	return examined
}

// c09UnmappedRemote: the rate-limit bucket, the allowlist and a profile's
// client subnets are all chosen by the client's address family, so the address
// of the peer must be unmapped first: on a dual-stack socket an IPv4 client
// appears as ::ffff:a.b.c.d, and taken as it is every IPv4 client would share
// one IPv6 bucket.  In the rate-limiting middleware every netip.AddrPort that
// stands for the remote address comes from netutil.NetAddrToAddrPort (which
// unmaps) applied to the writer's RemoteAddr.
func c09UnmappedRemote(c *an.Ctx, rule string) {
	c09UnmappedRemoteIn(c, rule, "dnssvc/internal/ratelimitmw.(*Middleware).Wrap$1")
}

// c09UnmappedRemoteIn is c09UnmappedRemote for one handler function.
func c09UnmappedRemoteIn(c *an.Ctx, rule, k string) {
	fn := c.Fn(k)
	key := k + " takes the client's address through netutil.NetAddrToAddrPort"
	if fn == nil {
		c.Und(rule, key, token.NoPos, "anchor not found")
		return
	}
	c.Analysed(k)
	n := 0
	bad := ""
	for _, call := range an.Calls(fn) {
		name := an.CalleeName(call)
		if name != "(net/netip.AddrPort).Addr" && name != "(net/netip.AddrPort).Port" {
			continue
		}
		n++
		ok := false
		w := &an.Walker{P: c.Prog, NoFieldJoin: true, Opaque: func(*ssa.Function) bool { return true },
			Visit: func(v ssa.Value) bool {
				if cl, isCall := v.(*ssa.Call); isCall {
					if strings.HasSuffix(an.CalleeName(cl), "netutil.NetAddrToAddrPort") {
						ok = true
					}
					return true
				}
				return false
			}}
		w.Walk(call.Common().Args[0])
		if !ok {
			bad = "the address used at " + c.Pos(call.Pos()) + " does not come from netutil.NetAddrToAddrPort"
		}
	}
	c.Check(n > 0 && bad == "", rule, key, fn.Pos(), fmt.Sprintf("%d uses of the remote address, each of the unmapping conversion's result", n),
		bad+": an IPv4 client of a dual-stack listener keeps its IPv4-mapped IPv6 form and is limited, allowlisted and matched as an IPv6 client")
}

// c09WindowRenewed: the per-subnet RequestCounter lives in an expiring cache
// (go-cache), which does not extend an entry's life when it is read.  An entry
// stored only when the subnet is first seen disappears a fixed time later,
// activity or not, and the next query starts with an empty window: up to twice
// the configured number of queries pass within one interval.  On every path of
// hasHitRateLimit from the entry to the Add of the counter, the counter is
// stored (Set / SetDefault) in the reqCounters cache.
func c09WindowRenewed(c *an.Ctx, rule string) {
	k := "dnsserver/ratelimit.(*Backoff).hasHitRateLimit"
	fn := c.Prog.Fn(k)
	key := k + ": the window is stored again on every use"
	if fn == nil {
		c.Und(rule, key, token.NoPos, "anchor not found")
		return
	}
	c.Analysed(k)
	var add ssa.Instruction
	stores := map[ssa.Instruction]bool{}
	for _, call := range an.Calls(fn) {
		n := an.CalleeName(call)
		switch {
		case strings.HasSuffix(n, "ratelimit.RequestCounter).Add"):
			add = call
		case strings.Contains(n, "go-cache.") && (strings.HasSuffix(n, ").SetDefault") || strings.HasSuffix(n, ").Set")):
			// the receiver is the embedded cache of the *cache.Cache held in Backoff.reqCounters
			if p, ok := an.AccessPath(call.Common().Args[0]); ok && strings.Contains(p, ".reqCounters") {
				stores[call] = true
			}
		}
	}
	if add == nil || len(stores) == 0 {
		c.Und(rule, key, fn.Pos(), "the Add of the request counter or the store into reqCounters was not found")
		return
	}
	// is the Add reachable from the entry without passing a store?
	seen := map[*ssa.BasicBlock]bool{}
	var reach func(b *ssa.BasicBlock, from int) bool
	reach = func(b *ssa.BasicBlock, from int) bool {
		for _, in := range b.Instrs[from:] {
			if stores[in] {
				return false
			}
			if in == add {
				return true
			}
		}
		for _, s := range b.Succs {
			if !seen[s] {
				seen[s] = true
				if reach(s, 0) {
					return true
				}
			}
		}
		return false
	}
	bypass := reach(fn.Blocks[0], 0)
	c.Check(!bypass, rule, key, add.Pos(), "every path to the counting step stores the window in the cache",
		"a path reaches the counting step at "+c.Pos(add.Pos())+" without storing the window in reqCounters (the path on which it was found there): the cache entry keeps the expiry of its creation, the window of an active subnet is dropped a backoff period after the subnet was first seen, and the subnet gets a fresh allowance inside the same interval")
}
