package rules

import (
	"fmt"
	"go/token"
	"go/types"
	"sort"
	"strings"

	"adgverif/an"

	"golang.org/x/tools/go/ssa"
)

func init() {
	register(&Property{ID: "C14", Technique: "lock-held dataflow over the profile database maps; check-then-act rule for deferred clean-ups (generation captured at decision time, re-validated under the write lock); decision-tree extraction of the lookup re-checks; encoder/decoder struct-field coverage; loop-carried aliasing lint; who-may-write-files rule",
		Run: runC14, Explain: an.Explanation{
			Text: "R1: the six index maps and the generation counter of the in-memory profile database are written only while mapsMu is " +
				"write-held and read only while it is held (helpers documented as 'assumes locked' are checked at their call sites). " +
				"R2: every function started with go that deletes from an index map does so only after comparing, under the write " +
				"lock, the generation counter with the value captured when the clean-up was decided, and every go site passes the " +
				"counter read under the lookup's lock; every critical section that inserts into or clears an index map increments the " +
				"counter first, so a clean-up decided before a synchronisation can never delete what that synchronisation wrote. " +
				"R3: a full synchronisation clears all six maps. R4: the decision trees of the lookups by linked IP, dedicated IP and " +
				"human ID and of profileByDeviceID: success is returned only after the re-check against the device's and profile's " +
				"current data, and a clean-up is scheduled exactly on the stale outcomes. R5: the file cache is written only through " +
				"renameio (atomic replace) and Load rejects another version before converting. R6: every exported field of the " +
				"profile, device and their nested settings types is read by the cache encoder and written by the decoder. R7: no " +
				"encoder loop appends a view of a buffer that the next iteration overwrites.",
			NotCovered: "that the maps equal a reference model after arbitrary synchronisation sequences; protobuf wire compatibility.",
			Rules: map[string]string{"C14-R26": "DefaultRatelimiter.Config reports the limiter as enabled (the constant true: a DefaultRatelimiter exists only for an enabled custom limit, whatever its RPS): the file cache writes a profile's limit of zero requests as an enabled limit; R27: the device finder's findDevice tests the profile's Deleted mark itself, for every way a device was found (the dedicated-address path builds its result without the common helper)", "C14-R25": "the file-cache loader accepts a file of exactly its own layout version and refuses every other one, older ones included (a record written before a field existed decodes with that field empty: no authentication policy, no access rules)", "C14-R24": "the file-cache codec copies the minutes of a pause-schedule interval as they are, in both directions (a conversion of the same-named field and nothing else): an interval that ends at midnight (End 1440) ends at midnight after a restart", "C14-R23": "the file-cache codec carries prefix lengths over unchanged, zero included (shared with C09-R16): a match-all subnet of an access or rate-limit list is the same subnet after a restart", "C14-R22": "cmd.setServerGroupProperties collects every bind prefix of every server, single addresses included, into the set against which the backend decoder checks dedicated addresses: the append is not made under a test of IsSingleIP (a device whose dedicated address is one of the single-address binds would be dropped at every synchronisation)", "C14-R20": "filecachepb.(*Ratelimiter).toInternal: the global limiter exactly for absent or disabled settings, otherwise the profile's own with the stored limit and subnets (shared with C09-R13)", "C14-R21": "filecachepb.ipToBytes stores netip.Addr.MarshalBinary of the address, so a device without a linked IP comes back without one", "C14-R18": "every clean-up goroutine of the profile database deletes from the index map that the lookup which starts it reads", "C14-R19": "the access settings a profile was built with are what Config() reports for the file cache, whether or not the profile has served a query in between (shared with C10-R6)", "C14-R17": "the backendpb converters read a field through a sub-message pointer only after a nil test of it (a panic in the synchronisation ends the periodic refresh loop)", "C14-R16": "ProfileStorage.Profiles hands on every received profile that converts (from the success edge of toInternal the next receive is reachable only through the appends to Profiles and Devices)", "C14-R15": "ProfileByHumanID answers only when the profile that contains the found device is the requested one (stale (profile, human ID) keys of moved devices)", "C14-RC": "class rules (error chains, shadowed results, character classes, crossed arguments, pool constructors, array pools, loop completeness, loop-carried buffers, replacing setters, complete clones, Grow arithmetic, pooled-buffer escape, sorted searches, fresh decode targets, per-iteration objects, whole-message copies, codec guards) over the packages this property rests on", "C14-R14": "profile decoders return a usable value, never a nil interface, on error-free paths (expected count zero; F16 was the one instance)", "C14-R13": "profile codecs: early default returns only for nil / disabled input; nil sub-messages only for nil input (shared class rules)", "C14-R12": "the periodic refresh worker that drives the profile sync (shared rule, see C13-R11)", "C14-R11": "weekly-schedule codecs: all seven weekdays converted, each from/to the field of its own day (constant-index stores or a full loop over a weekday-ordered list)", "C14-R1": "maps and generation only under mapsMu", "C14-R2": "clean-ups re-validated by generation; inserts bump it",
				"C14-R3": "full sync clears all maps", "C14-R4": "lookup re-check decision trees", "C14-R5": "atomic cache write, version check",
				"C14-R6": "codec field coverage", "C14-R7": "no loop-carried buffer aliasing in the encoder",
				"C14-R8": "synchronisation protocol tables: Refresh (apply exactly what was fetched, advance the sync point, store the file cache on a full sync), fetchProfiles (a full sync asks from the zero time), needsFullSync, loadFileCache"},
		}})
}

var c14Maps = map[string]bool{"profiles": true, "devices": true, "dedicatedIPToDeviceID": true, "deviceIDToProfileID": true,
	"humanIDToDeviceID": true, "linkedIPToDeviceID": true}

const pdb = "profiledb.(*Default)."

func runC14(c *an.Ctx) {
	// ---- R26: an enabled custom limit is stored as enabled; R27: deleted profiles are filtered in findDevice
	c.Floor("C14-R26", 1)
	c14RatelimitConfigEnabled(c, "C14-R26")
	c.Floor("C14-R27", 1)
	c14DeletedFilteredCentrally(c, "C14-R27")
	// ---- R25: only the loader's own cache version is loaded
	c.Floor("C14-R25", 1)
	c14ExactCacheVersion(c, "C14-R25")
	// ---- R24: schedule minutes survive the file cache unchanged
	c.Floor("C14-R24", 4)
	c14ScheduleVerbatim(c, "C14-R24")
	// ---- R23: prefix lengths survive the file cache (shared with C09-R16)
	c.Floor("C14-R23", 1)
	c.Borrow("C14-R23", runC09, func(o an.Obligation) bool { return o.Rule == "C09-R16" && strings.Contains(o.Key, "filecachepb") })
	// ---- R22: the bind set holds every bind prefix
	c.Floor("C14-R22", 1)
	c14BindSetComplete(c, "C14-R22")
	classSweep(c, "C14")
	// ---- R20: a profile's rate-limit settings come back from the file cache as they went in (table shared with
	// C09-R13); R21: an address is stored in its marshalled form, in which "no address" stays "no address"
	c.Floor("C14-R20", 1)
	c.Borrow("C14-R20", runC09, func(o an.Obligation) bool {
		return o.Rule == "C09-R13" && strings.Contains(o.Key, "filecachepb.(*Ratelimiter).toInternal")
	})
	c.Floor("C14-R21", 1)
	decide(c, "C14-R21", "profiledb/internal/filecachepb.ipToBytes", an.DecideCfg{
		Dom: an.Domain{},
		OnCall: func(it *an.Interp, name string, args []an.AV) (an.AV, bool) {
			if strings.HasSuffix(name, "netip.Addr).MarshalBinary") {
				return an.AV{Kind: an.KTuple, Tup: []an.AV{an.Sym("marshalled(" + args[0].String() + ")"), an.Nil()}}, true
			}
			return an.AV{}, false
		},
		Expect: func(f an.Features, o an.AOutcome) string {
			if o.Exit != "return" || o.RetString() != "marshalled(p0)" {
				return "netip.Addr.MarshalBinary of the address (empty for the zero address, which the reader turns back into the zero address; sixteen zero bytes would come back as ::); got " + o.RetString()
			}
			return ""
		},
	})
	// ---- R18: a clean-up goroutine deletes from the index its lookup read; R19: a profile's access rules survive
	// being consulted before the file cache is written (shared with C10-R6)
	if n := c14CleanupSameIndex(c, "C14-R18"); n < 3 {
		c.Und("C14-R18", "clean-up goroutines of the index maps", token.NoPos, "only %d `go db.remove…` statements found", n)
	}
	c.Floor("C14-R19", 1)
	c.Borrow("C14-R19", runC10, func(o an.Obligation) bool { return o.Rule == "C10-R6" })
	// ---- R17: the backend's messages are converted without assuming that a sub-message is present
	if n := sharedSubmessageNilSafe(c, "C14-R17", "backendpb."); n < 3 {
		c.Und("C14-R17", "sub-message accesses in backendpb", token.NoPos, "only %d field accesses through sub-message pointers found", n)
	}
	// ---- R16: every profile the backend sends and that converts reaches the database (deleted ones and ones
	// without devices included: they are what removes a profile or detaches its last device)
	c.Floor("C14-R16", 1)
	sharedHandOnEvery(c, "C14-R16", "backendpb.(*ProfileStorage).Profiles", "DNSProfile).toInternal", "Profiles", "Devices")
	c.Floor("C14-R12", 5)
	refreshWorkerRules(c, "C14-R12")
	dnssvcWiring(c, "C14-R10", func(dst, src string) bool {
		n := normName(dst) + " " + normName(src)
		return strings.Contains(n, "profiledb")
	}, 1)
	// ---- C14-R10: builder wiring of the components this property rests on
	c.Floor("C14-R10", 10)
	builderWiring(c, "C14-R10", map[string][]string{
		"initDNS|dnssvc.HandlersConfig":                {"ProfileDB"},
		"initProfileDB|profiledb.Config":               nil,
		"initProfileDB|backendpb.ProfileStorageConfig": nil,
		"initProfileDB|agdservice.RefreshWorkerConfig": nil,
	})
	if n := sharedLoopCompleteness(c, "C14-R9", "backendpb.", "profiledb"); n > 0 {
		c.Ok("C14-R9", "element-wise loops", token.NoPos, "%d range loops of the profile conversions examined: no element ends a conversion early", n)
	}
	c.Floor("C14-R1", 30)
	c.Floor("C14-R2", 14)
	c.Floor("C14-R3", 6)
	c.Floor("C14-R4", 4)
	c.Floor("C14-R5", 2)
	c.Floor("C14-R6", 40)
	c.Floor("C14-R8", 4)
	c14Sync(c)

	cache := map[*ssa.Function]map[ssa.Instruction]an.Held{}
	isDBField := func(v ssa.Value, names map[string]bool) (string, bool) {
		typ, field, _, ok := an.FieldOf(v)
		if ok && typ == "profiledb.Default" && names[field] {
			return field, true
		}
		return "", false
	}
	gen := map[string]bool{"mapsGen": true}

	// ---- R1
	for _, fn := range c.FnsMatching("profiledb.") {
		if c.IsTestFile(fn.Pos()) || an.FnKey(fn) == "profiledb.New" || strings.HasPrefix(an.FnKey(fn), "profiledb/") {
			continue
		}
		an.Instrs(fn, func(in ssa.Instruction) {
			fa, ok := in.(*ssa.FieldAddr)
			if !ok {
				return
			}
			field, ok := isDBField(fa, c14Maps)
			if !ok {
				field, ok = isDBField(fa, gen)
			}
			if !ok {
				return
			}
			c.Analysed(an.FnKey(fn))
			// classify the uses of the loaded map: write (MapUpdate, delete, clear, store) or read
			write, onlyLen := false, true
			for _, r := range *fa.Referrers() {
				switch u := r.(type) {
				case *ssa.Store:
					if u.Addr == fa {
						write = true
						onlyLen = false
					}
				case *ssa.UnOp:
					for _, r2 := range *u.Referrers() {
						switch u2 := r2.(type) {
						case *ssa.MapUpdate:
							write = true
							onlyLen = false
						case ssa.CallInstruction:
							n := an.CalleeName(u2)
							if n == "builtin.delete" || n == "builtin.clear" {
								write = true
							}
							if n != "builtin.len" {
								onlyLen = false
							}
						case *ssa.DebugRef:
						default:
							onlyLen = false
						}
					}
				}
			}
			key := fmt.Sprintf("%s %s %s", an.FnKey(fn), map[bool]string{true: "writes", false: "reads"}[write], field)
			if !write && onlyLen && field != "mapsGen" && an.FnKey(fn) == pdb+"Refresh$3" {
				c.Ok("C14-R1", key, fa.Pos(), "exception: len() of the map for a metric, under refreshMu only (benign, not a lookup)")
				return
			}
			mode, why := c.HeldAt(in, "mapsMu", 3, cache)
			switch {
			case mode == "":
				c.Bad("C14-R1", key, fa.Pos(), "profile database state accessed without mapsMu: %s", why)
			case write && mode != "w":
				c.Bad("C14-R1", key, fa.Pos(), "profile database state written while mapsMu is only read-held")
			default:
				c.Ok("C14-R1", key, fa.Pos(), "mapsMu held (%s)", mode)
			}
		})
	}
	c.Except("C14-R1", pdb+"Refresh$3", "reads len(db.profiles)/len(db.devices) for a metric without mapsMu; a benign race on len, unrelated to lookups")

	// ---- R2a: clean-ups
	goTargets := map[*ssa.Function][]*ssa.Go{}
	for _, fn := range c.FnsMatching("profiledb.") {
		for _, call := range an.Calls(fn) {
			if g, ok := call.(*ssa.Go); ok {
				if f := an.StaticCallee(g); f != nil && c.InRepo(f) {
					goTargets[f] = append(goTargets[f], g)
				}
			}
		}
	}
	var targets []*ssa.Function
	for f := range goTargets {
		targets = append(targets, f)
	}
	sort.Slice(targets, func(i, j int) bool { return an.FnKey(targets[i]) < an.FnKey(targets[j]) })
	for _, f := range targets {
		var dels []ssa.CallInstruction
		for _, call := range an.Calls(f) {
			if an.CalleeName(call) == "builtin.delete" {
				dels = append(dels, call)
			}
		}
		if len(dels) == 0 {
			continue
		}
		c.Analysed(an.FnKey(f))
		// the generation parameter
		var genParam *ssa.Parameter
		for _, pa := range f.Params {
			if b, ok := pa.Type().Underlying().(*types.Basic); ok && b.Kind() == types.Uint64 {
				genParam = pa
			}
		}
		for _, d := range dels {
			key := an.FnKey(f) + " delete"
			ok, why := false, "the delete is not guarded by a comparison of the generation counter with the value captured at decision time"
			if genParam != nil {
				for _, e := range an.DominatingConds(d.Block()) {
					b, isBin := e.If.Cond.(*ssa.BinOp)
					if !isBin || (b.Op != token.EQL && b.Op != token.NEQ) {
						continue
					}
					var other ssa.Value
					if b.X == ssa.Value(genParam) {
						other = b.Y
					} else if b.Y == ssa.Value(genParam) {
						other = b.X
					} else {
						continue
					}
					ld, isLoad := other.(*ssa.UnOp)
					if !isLoad {
						continue
					}
					if _, isGen := isDBField(ld.X, gen); !isGen {
						continue
					}
					// equal edge must be the one leading to the delete
					if (b.Op == token.EQL) != e.Branch {
						why = "the delete runs when the generation differs"
						continue
					}
					if m, _ := c.HeldAt(ld, "mapsMu", 0, cache); m != "w" {
						why = "the generation is compared without the write lock"
						continue
					}
					ok = true
				}
			}
			if ok {
				c.Ok("C14-R2", key, d.Pos(), "delete only when mapsGen still equals the generation captured at decision time, under the write lock")
			} else {
				c.Bad("C14-R2", key, d.Pos(), "%s: a clean-up decided before a synchronisation can delete the entry that synchronisation wrote", why)
			}
		}
		// go sites pass db.mapsGen read under the lock
		for _, g := range goTargets[f] {
			key := an.FnKey(g.Parent()) + " go " + f.Name()
			okArg := false
			if genParam != nil {
				idx := an.ParamIndex(genParam)
				if idx < len(g.Call.Args) {
					if ld, isLoad := g.Call.Args[idx].(*ssa.UnOp); isLoad {
						if _, isGen := isDBField(ld.X, gen); isGen {
							if m, _ := c.HeldAt(ld, "mapsMu", 3, cache); m != "" {
								okArg = true
							}
						}
					}
				}
			}
			c.Check(okArg, "C14-R2", key, g.Pos(), "the clean-up receives the generation read under the lookup's lock",
				"the clean-up is not given the generation counter read under the lock at decision time")
		}
	}
	// ---- R2c: who may delete from an index map
	for _, fn := range c.FnsMatching("profiledb.") {
		if c.IsTestFile(fn.Pos()) || goTargets[fn] != nil {
			continue
		}
		for _, call := range an.Calls(fn) {
			if an.CalleeName(call) != "builtin.delete" || len(call.Common().Args) != 2 {
				continue
			}
			ld, ok := call.Common().Args[0].(*ssa.UnOp)
			if !ok {
				continue
			}
			mapName, isMap := isDBField(ld.X, c14Maps)
			if !isMap {
				continue
			}
			c.Analysed(an.FnKey(fn))
			key := an.FnKey(fn) + " deletes from " + mapName
			// accepted outside a clean-up only when the entry is checked to still
			// belong to the object being replaced: m[k] == id on the path to the delete
			owned := false
			k := call.Common().Args[1]
			for _, e := range an.DominatingConds(call.Block()) {
				b, isBin := e.If.Cond.(*ssa.BinOp)
				if !isBin || (b.Op != token.EQL && b.Op != token.NEQ) || (b.Op == token.EQL) != e.Branch {
					continue
				}
				for _, side := range []ssa.Value{b.X, b.Y} {
					var lk *ssa.Lookup
					switch x := side.(type) {
					case *ssa.Lookup:
						lk = x
					case *ssa.Extract:
						lk, _ = x.Tuple.(*ssa.Lookup)
					}
					if lk == nil {
						continue
					}
					if ld2, ok := lk.X.(*ssa.UnOp); ok {
						if n2, isMap2 := isDBField(ld2.X, c14Maps); isMap2 && n2 == mapName && sameValue(lk.Index, k) {
							owned = true
						}
					}
				}
			}
			if owned {
				c.Ok("C14-R2", key, call.Pos(), "the entry is deleted only after checking that it still maps to the expected owner")
			} else {
				c.Bad("C14-R2", key, call.Pos(), "an index entry is deleted outside the generation-checked clean-ups and without checking who owns the key now: the entry of the key's current owner can be removed")
			}
		}
	}
	// ---- R2b: inserts bump the generation
	for _, fn := range c.FnsMatching("profiledb.(*Default).") {
		if c.IsTestFile(fn.Pos()) {
			continue
		}
		var inserts []ssa.Instruction
		an.Instrs(fn, func(in ssa.Instruction) {
			switch x := in.(type) {
			case *ssa.MapUpdate:
				if ld, ok := x.Map.(*ssa.UnOp); ok {
					if _, isMap := isDBField(ld.X, c14Maps); isMap {
						inserts = append(inserts, in)
					}
				}
			case *ssa.Call:
				if an.CalleeName(x) == "builtin.clear" && len(x.Call.Args) == 1 {
					if ld, ok := x.Call.Args[0].(*ssa.UnOp); ok {
						if _, isMap := isDBField(ld.X, c14Maps); isMap {
							inserts = append(inserts, in)
						}
					}
				}
			}
		})
		if len(inserts) == 0 {
			continue
		}
		c.Analysed(an.FnKey(fn))
		bumped := func(f *ssa.Function, at ssa.Instruction) bool {
			found := false
			an.Instrs(f, func(in ssa.Instruction) {
				st, ok := in.(*ssa.Store)
				if !ok {
					return
				}
				if _, isGen := isDBField(st.Addr, gen); isGen && an.Dominates(st, at) {
					if b, ok := st.Val.(*ssa.BinOp); ok && b.Op == token.ADD {
						found = true
					}
				}
			})
			return found
		}
		bad := ""
		for _, ins := range inserts {
			if bumped(fn, ins) {
				continue
			}
			// helper: every call site must have bumped before the call
			sites := c.Callers(fn)
			okAll := len(sites) > 0
			for _, s := range sites {
				if s.Call == nil || !bumped(s.Call.Parent(), s.Call) {
					okAll = false
				}
			}
			if !okAll {
				bad = c.Pos(ins.Pos())
			}
		}
		key := an.FnKey(fn) + " inserts"
		if bad != "" {
			c.Bad("C14-R2", key, fn.Pos(), "the index-map update at %s is not preceded by an increment of mapsGen in its critical section: a pending clean-up decided earlier would still delete what it writes", bad)
		} else {
			c.Ok("C14-R2", key, fn.Pos(), "%d index-map updates, each after mapsGen is incremented in the same critical section", len(inserts))
		}
	}

	// ---- R3
	if fn := c.Fn(pdb + "setProfiles"); fn == nil {
		c.Und("C14-R3", pdb+"setProfiles", token.NoPos, "anchor not found")
	} else {
		cleared := map[string]ssa.Instruction{}
		for _, call := range an.Calls(fn) {
			if an.CalleeName(call) == "builtin.clear" {
				if ld, ok := call.Common().Args[0].(*ssa.UnOp); ok {
					if f, isMap := isDBField(ld.X, c14Maps); isMap {
						cleared[f] = call
					}
				}
			}
		}
		var names []string
		for n := range c14Maps {
			names = append(names, n)
		}
		sort.Strings(names)
		for _, n := range names {
			call, ok := cleared[n]
			onFull := false
			if ok {
				for _, e := range an.DominatingConds(call.Block()) {
					if pa, isParam := e.If.Cond.(*ssa.Parameter); isParam && pa.Name() == "isFullSync" && e.Branch {
						onFull = true
					}
				}
			}
			c.Check(ok && onFull, "C14-R3", "setProfiles clears "+n, fn.Pos(), "cleared on a full synchronisation",
				"not cleared on a full synchronisation: entries of devices that no longer exist survive")
		}
	}

	c14Lookups(c, "C14-R4")
	c14Cache(c)
	c14Codec(c)
}

// c14Lookups extracts the decision trees of the lookup re-checks.
func c14Lookups(c *an.Ctx, rule string) {
	errDev, _ := c.ConstStr("profiledb", "ErrDeviceNotFound")
	lookupRes := func(it *an.Interp, k string) an.AV {
		switch it.Feature(k).String() {
		case `"ok"`:
			return an.AV{Kind: an.KTuple, Tup: []an.AV{an.NonNil("prof"), an.NonNil("dev"), an.Nil()}}
		case `"devnotfound"`:
			return an.AV{Kind: an.KTuple, Tup: []an.AV{an.Nil(), an.Nil(), an.NonNil("errDevNotFound")}}
		default:
			return an.AV{Kind: an.KTuple, Tup: []an.AV{an.Nil(), an.Nil(), an.NonNil("errOther")}}
		}
	}
	common := func(it *an.Interp, name string, args []an.AV) (an.AV, bool) {
		switch {
		case strings.HasSuffix(name, ").profileByDeviceID"):
			return lookupRes(it, "byid"), true
		case strings.HasSuffix(name, "errors.Is"):
			if len(args) == 2 && strings.Contains(args[1].Key, errDev) {
				return an.CBool(args[0].Key == "errDevNotFound"), true
			}
		case name == "fmt.Errorf":
			return an.NonNil("wrapped"), true
		}
		return an.AV{}, false
	}
	goes := func(o an.AOutcome, target string) (n int, args string) {
		for _, e := range o.Effects {
			if e.Kind == "go" && strings.HasSuffix(e.Name, target) {
				n++
				args = strings.Join(e.Args, ",")
			}
		}
		return n, args
	}
	success := func(o an.AOutcome) bool {
		return o.Exit == "return" && len(o.Ret) == 3 && o.Ret[0].String() == "nonnil:prof" && o.Ret[1].String() == "nonnil:dev" && o.Ret[2].Kind == an.KNil
	}
	failure := func(o an.AOutcome) bool {
		return o.Exit == "return" && len(o.Ret) == 3 && o.Ret[0].Kind == an.KNil && o.Ret[1].Kind == an.KNil && o.Ret[2].Kind != an.KNil
	}
	// linked IP
	decide(c, rule, pdb+"ProfileByLinkedIP", an.DecideCfg{
		Dom: an.Domain{"p0.linkedIPToDeviceID[p2]#ok": an.Bools, "p0.linkedIPToDeviceID[p2]": {an.Sym("devid")},
			"byid": an.Strs("ok", "devnotfound", "other"), "(dev.LinkedIP == zero:net/netip.Addr)": an.Bools, "(dev.LinkedIP == p2)": an.Bools},
		OnCall: common,
		Expect: func(f an.Features, o an.AOutcome) string {
			n, args := goes(o, ").removeLinkedIP")
			wantGo := false
			wantOK := false
			switch {
			case !f.B("p0.linkedIPToDeviceID[p2]#ok"):
			case f.S("byid") == "devnotfound":
				wantGo = true
			case f.S("byid") == "other":
			case f.B("(dev.LinkedIP == zero:net/netip.Addr)"):
			case !f.B("(dev.LinkedIP == p2)"):
				wantGo = true
			default:
				wantOK = true
			}
			if wantOK != success(o) || (!wantOK && !failure(o)) {
				return fmt.Sprintf("success=%v (only when the device's current linked IP equals the looked-up address)", wantOK)
			}
			if wantGo != (n == 1) || (n == 1 && args != "p0,p1,p2,p0.mapsGen") {
				return fmt.Sprintf("clean-up scheduled=%v with (ctx, ip, current generation); got %d with %s", wantGo, n, args)
			}
			return ""
		},
	})
	// dedicated IP
	decide(c, rule, pdb+"ProfileByDedicatedIP", an.DecideCfg{
		Dom: an.Domain{"p0.dedicatedIPToDeviceID[p2]#ok": an.Bools, "p0.dedicatedIPToDeviceID[p2]": {an.Sym("devid")},
			"byid": an.Strs("ok", "devnotfound", "other"), "contains": an.Bools},
		OnCall: func(it *an.Interp, name string, args []an.AV) (an.AV, bool) {
			if strings.HasPrefix(name, "slices.Contains") {
				if len(args) == 2 && args[0].String() == "dev.DedicatedIPs" && args[1].String() == "p2" {
					return it.Feature("contains"), true
				}
				return an.Sym("re-check against other data"), true
			}
			return common(it, name, args)
		},
		Expect: func(f an.Features, o an.AOutcome) string {
			n, args := goes(o, ").removeDedicatedIP")
			wantGo, wantOK := false, false
			switch {
			case !f.B("p0.dedicatedIPToDeviceID[p2]#ok"):
			case f.S("byid") == "devnotfound":
				wantGo = true
			case f.S("byid") == "other":
			case !f.B("contains"):
				wantGo = true
			default:
				wantOK = true
			}
			if wantOK != success(o) || (!wantOK && !failure(o)) {
				return fmt.Sprintf("success=%v (only when the device still owns the dedicated address)", wantOK)
			}
			if wantGo != (n == 1) || (n == 1 && args != "p0,p1,p2,p0.mapsGen") {
				return fmt.Sprintf("clean-up scheduled=%v with (ctx, ip, current generation); got %d with %s", wantGo, n, args)
			}
			return ""
		},
	})
	// human ID
	decide(c, rule, pdb+"ProfileByHumanID", an.DecideCfg{
		Dom: an.Domain{"p0.profiles[p2]#ok": an.Bools, "p0.profiles[p2]": {an.NonNil("profByID")},
			"p0.humanIDToDeviceID[struct{lower:p3,profile:p2}]#ok": an.Bools, "byid": an.Strs("ok", "devnotfound", "other"), "(p3 == dev.HumanIDLower)": an.Bools,
			// F17: the profile that contains the found device must be the requested one
			"(prof.ID == p2)": an.Bools},
		OnCall: common,
		Args:   nil,
		Expect: func(f an.Features, o an.AOutcome) string {
			n, _ := goes(o, ").removeHumanID")
			wantGo, wantOK := false, false
			switch {
			case !f.B("p0.profiles[p2]#ok"):
			case !f.B("p0.humanIDToDeviceID[struct{lower:p3,profile:p2}]#ok"):
			case f.S("byid") == "devnotfound":
				wantGo = true
			case f.S("byid") == "other":
			case !f.B("(p3 == dev.HumanIDLower)"):
				wantGo = true
			case !f.B("(prof.ID == p2)"):
				// the device was moved to another profile: the (profile, human ID) key is stale
				wantGo = true
			default:
				wantOK = true
			}
			if wantOK != success(o) || (!wantOK && !failure(o)) {
				return fmt.Sprintf("success=%v (only for an existing profile that still contains a device carrying the human ID)", wantOK)
			}
			if wantGo != (n == 1) {
				return fmt.Sprintf("clean-up scheduled=%v; got %d", wantGo, n)
			}
			return ""
		},
	})
	// profileByDeviceID
	decide(c, rule, pdb+"profileByDeviceID", an.DecideCfg{
		Dom: an.Domain{"p0.deviceIDToProfileID[p2]#ok": an.Bools, "p0.deviceIDToProfileID[p2]": {an.Sym("profid")},
			"p0.profiles[profid]#ok": an.Bools, "p0.profiles[profid]": {an.NonNil("prof")},
			"len(prof.DeviceIDs)": an.Ints(0, 1, 2), "(prof.DeviceIDs[0] == p2)": an.Bools, "(prof.DeviceIDs[1] == p2)": an.Bools,
			"p0.devices[p2]": {an.Nil(), an.NonNil("dev")}, "prof.AutoDevicesEnabled": an.Bools},
		OnCall: common,
		Expect: func(f an.Features, o an.AOutcome) string {
			n, args := goes(o, ").removeDevice")
			wantGo, wantOK := false, false
			switch {
			case !f.B("p0.deviceIDToProfileID[p2]#ok"):
			case !f.B("p0.profiles[profid]#ok"):
				wantGo = true
			default:
				inProf := false
				l := f.I("len(prof.DeviceIDs)")
				for i := int64(0); i < l; i++ {
					if f.B(fmt.Sprintf("(prof.DeviceIDs[%d] == p2)", i)) {
						inProf = true
						break
					}
				}
				if inProf && !f.IsNil("p0.devices[p2]") {
					wantOK = true
				} else {
					wantGo = !f.B("prof.AutoDevicesEnabled")
				}
			}
			if wantOK != success(o) || (!wantOK && !failure(o)) {
				return fmt.Sprintf("success=%v (only when the profile exists, still lists the device, and the device record exists)", wantOK)
			}
			if wantGo != (n == 1) || (n == 1 && args != "p0,p1,p2,p0.mapsGen") {
				return fmt.Sprintf("clean-up scheduled=%v with (ctx, id, current generation); got %d with %s", wantGo, n, args)
			}
			return ""
		},
	})
}

// c14Cache checks the file-cache storage.
func c14Cache(c *an.Ctx) {
	const st = "profiledb/internal/filecachepb.(*Storage)."
	if fn := c.Fn(st + "Store"); fn == nil {
		c.Und("C14-R5", st+"Store", token.NoPos, "anchor not found")
	} else {
		c.Analysed(an.FnKey(fn))
		writes, bad := 0, ""
		for _, call := range an.Calls(fn) {
			n := an.Short(an.CalleeName(call))
			switch {
			case n == "github.com/google/renameio/v2.WriteFile":
				writes++
			case strings.HasPrefix(n, "os.") && (strings.Contains(n, "WriteFile") || strings.Contains(n, "Create") || strings.Contains(n, "OpenFile") || strings.Contains(n, "Rename")):
				bad = n
			}
		}
		c.Check(writes == 1 && bad == "", "C14-R5", st+"Store", fn.Pos(), "the cache file is written by one renameio.WriteFile (atomic replace)",
			"the cache file is not written exclusively through renameio.WriteFile "+bad)
	}
	sharedFileMutators(c, "C14-R5", "profiledb")
	c14CodecNames(c, "C14-R6", nil, 60)
	c.Floor("C14-R11", 9)
	c.Floor("C14-R15", 1)
	c14HumanIDProfile(c)
	// ---- R14: the decoders never hand out a nil behaviour object (authenticator, limiter, access profile, blocking mode)
	c.Inf("C14-R14", "nil interface results", token.NoPos, "%d error-free nil returns of interface-typed converter results found in the profile codecs",
		sharedNoNilInterfaceResult(c, "C14-R14", nil, "backendpb.", "profiledb/internal/filecachepb."))
	// ---- R13: a setting that is present is never replaced by a default because of what it contains
	if n := sharedCodecGuards(c, "C14-R13", nil, "backendpb.", "profiledb/internal/filecachepb."); n < 5 {
		c.Und("C14-R13", "early returns of the profile codecs", token.NoPos, "only %d early returns found", n)
	}
	if n := sharedNilOnlyAbsent(c, "C14-R13", nilWhenDisabled, "profiledb/internal/filecachepb.", "backendpb."); n < 3 {
		c.Und("C14-R13", "optional sub-messages are nil only when absent", token.NoPos, "only %d nil returns found", n)
	}
	c14WeekTables(c, "C14-R11")
	decide(c, "C14-R5", st+"Load", an.DecideCfg{
		Dom: an.Domain{"readerr": an.Strs("nil", "notexist", "other"), "unmarshalerr": an.Bools, "(fc.Version == ver)": an.Bools},
		OnCall: func(it *an.Interp, name string, args []an.AV) (an.AV, bool) {
			switch {
			case name == "os.ReadFile":
				switch it.Feature("readerr").String() {
				case `"nil"`:
					return an.AV{Kind: an.KTuple, Tup: []an.AV{an.NonNil("bytes"), an.Nil()}}, true
				case `"notexist"`:
					return an.AV{Kind: an.KTuple, Tup: []an.AV{an.Nil(), an.NonNil("errNotExist")}}, true
				}
				return an.AV{Kind: an.KTuple, Tup: []an.AV{an.Nil(), an.NonNil("errRead")}}, true
			case strings.HasSuffix(name, "errors.Is"):
				return an.CBool(args[0].Key == "errNotExist"), true
			case strings.HasSuffix(name, "proto.Unmarshal"):
				if it.Feature("unmarshalerr").IsTrue() {
					return an.NonNil("errUnmarshal"), true
				}
				return an.Nil(), true
			case name == "fmt.Errorf":
				return an.NonNil("wrapped"), true
			case strings.HasSuffix(name, "filecachepb.toInternal"):
				return an.AV{Kind: an.KTuple, Tup: []an.AV{an.NonNil("converted"), an.Nil()}}, true
			}
			return an.AV{}, false
		},
		MaxFree: 3,
		Expect: func(f an.Features, o an.AOutcome) string {
			converted := o.HasCall("profiledb/internal/filecachepb.toInternal")
			if !converted {
				return ""
			}
			// conversion only after a successful read and decode of the right version
			if f.S("readerr") != "nil" || f.B("unmarshalerr") {
				return "no conversion after a failed read or decode"
			}
			for k, v := range map[string]bool{} {
				_, _ = k, v
			}
			return ""
		},
	})
	// version gate: toInternal must be dominated by a comparison of the decoded version
	if fn := c.Fn(st + "Load"); fn != nil {
		var conv ssa.CallInstruction
		for _, call := range an.Calls(fn) {
			if an.IsCall(call, "profiledb/internal/filecachepb.toInternal") {
				conv = call
			}
		}
		ok := false
		if conv != nil {
			for _, e := range an.DominatingConds(conv.Block()) {
				if b, isBin := e.If.Cond.(*ssa.BinOp); isBin && (b.Op == token.EQL || b.Op == token.NEQ) {
					for _, op := range []ssa.Value{b.X, b.Y} {
						if ap, isPath := an.AccessPath(op); isPath && strings.HasSuffix(ap, ".Version") {
							if (b.Op == token.EQL) == e.Branch {
								ok = true
							}
						}
						if call, isCall := op.(*ssa.Call); isCall && strings.HasSuffix(an.CalleeName(call), ").GetVersion") {
							if (b.Op == token.EQL) == e.Branch {
								ok = true
							}
						}
					}
				}
			}
		}
		c.Check(ok, "C14-R5", st+"Load version gate", fn.Pos(), "the cache is converted only when its version equals the current one",
			"the decoded cache is converted without the version check dominating the conversion")
	}
}

// c14Codec checks encoder/decoder field coverage and loop-carried aliasing.
func c14Codec(c *an.Ctx) {
	const pk = "profiledb/internal/filecachepb."
	// every function of the package, split into encoders (agd -> pb) and decoders (pb -> agd)
	reads := map[string]bool{}  // "agd.Profile.ID" read anywhere in the package
	writes := map[string]bool{} // written (composite literal / store) anywhere in the package
	for _, fn := range c.FnsMatching(pk) {
		if c.IsTestFile(fn.Pos()) || strings.HasSuffix(an.FnPkg(fn).Path(), "filecachepb") == false {
			continue
		}
		file := c.Fset.Position(fn.Pos()).Filename
		if strings.HasSuffix(file, ".pb.go") {
			continue
		}
		c.Analysed(an.FnKey(fn))
		an.Instrs(fn, func(in ssa.Instruction) {
			var typ, field string
			var ok bool
			switch x := in.(type) {
			case *ssa.FieldAddr:
				typ, field, _, ok = an.FieldOf(x)
				if !ok {
					return
				}
				isStore := false
				isLoad := false
				for _, r := range *x.Referrers() {
					switch u := r.(type) {
					case *ssa.Store:
						if u.Addr == ssa.Value(x) {
							isStore = true
						}
					case *ssa.UnOp:
						isLoad = true
					default:
						isLoad = true
					}
				}
				if isStore {
					writes[typ+"."+field] = true
				}
				if isLoad {
					reads[typ+"."+field] = true
				}
			case *ssa.Field:
				typ, field, _, ok = an.FieldOf(x)
				if ok {
					reads[typ+"."+field] = true
				}
			}
		})
		c14Aliasing(c, fn)
	}
	roots := []string{"agd.Profile", "agd.Device"}
	seen := map[string]bool{}
	var visit func(tn string)
	visit = func(tn string) {
		if seen[tn] {
			return
		}
		seen[tn] = true
		t := c.TypeByString(tn)
		if t == nil {
			c.Und("C14-R6", tn, token.NoPos, "type not found")
			return
		}
		st, ok := t.Underlying().(*types.Struct)
		if !ok {
			return
		}
		for i := 0; i < st.NumFields(); i++ {
			f := st.Field(i)
			if !f.Exported() {
				continue
			}
			key := tn + "." + f.Name()
			r, w := reads[key], writes[key]
			// derived (not persisted) data, rebuilt by constructors on load
			derivedReason := c14Derived[key]
			switch {
			case derivedReason != "":
				c.Ok("C14-R6", key, f.Pos(), "exception: %s", derivedReason)
			case r && w:
				c.Ok("C14-R6", key, f.Pos(), "read by the encoder and written by the decoder")
			case !r:
				c.Bad("C14-R6", key, f.Pos(), "the file-cache encoder never reads this field: it is lost when the database restarts from its cache")
			default:
				c.Bad("C14-R6", key, f.Pos(), "the file-cache decoder never sets this field: it is lost when the database restarts from its cache")
			}
			// recurse into nested repository struct types
			ft := f.Type()
			if p, isPtr := ft.Underlying().(*types.Pointer); isPtr {
				ft = p.Elem()
			}
			if n := an.NamedOf(ft); n != nil && n.Obj().Pkg() != nil && strings.HasPrefix(n.Obj().Pkg().Path(), an.ModPath) {
				if _, isStruct := n.Underlying().(*types.Struct); isStruct {
					visit(an.TypeName(ft))
				}
			}
		}
	}
	for _, r := range roots {
		visit(r)
	}
	for k, why := range c14Derived {
		c.Except("C14-R6", k, why)
	}
}

// c14Derived lists fields that are rebuilt rather than persisted, with the reason.
var c14Derived = map[string]string{
	"agdtime.Location.Location": "embedded *time.Location, rebuilt by agdtime.LoadLocation from the stored zone name",
}

// c14Aliasing flags append(out, view-of-buf) inside a loop where buf lives
// outside the loop and is overwritten by each iteration.
func c14Aliasing(c *an.Ctx, fn *ssa.Function) {
	for _, call := range an.Calls(fn) {

		if an.CalleeName(call) != "builtin.append" || !an.CanReach(call, call) {
			continue
		}
		args := call.Common().Args
		if len(args) != 2 {
			continue
		}
		// elements being appended: a variadic slice of a temp array holding the element values
		var elems []ssa.Value
		if sl, ok := args[1].(*ssa.Slice); ok {
			if arr, ok := sl.X.(*ssa.Alloc); ok {
				for _, r := range *arr.Referrers() {
					if ia, ok := r.(*ssa.IndexAddr); ok {
						for _, st := range an.Stores(ia) {
							elems = append(elems, st.Val)
						}
					}
				}
			}
		}
		for _, e := range elems {
			// the reuse idiom: buf = append(buf[:0], …) carried around the loop
			if ap, ok := e.(*ssa.Call); ok && an.CalleeName(ap) == "builtin.append" && len(ap.Call.Args) == 2 {
				if s0, ok := ap.Call.Args[0].(*ssa.Slice); ok {
					if k, isConst := an.ConstInt(s0.High); isConst && k == 0 {
						if phi, ok := s0.X.(*ssa.Phi); ok {
							for _, edge := range phi.Edges {
								if edge == ssa.Value(ap) {
									c.Bad("C14-R7", an.FnKey(fn)+" append of reused buffer", call.Pos(),
										"each iteration re-fills the same backing array (buf = append(buf[:0], …)) and appends it: all encoded elements alias the last value")
								}
							}
						}
					}
				}
			}
			sl, ok := e.(*ssa.Slice)
			if !ok {
				continue
			}
			buf, ok := sl.X.(*ssa.Alloc)
			if !ok {
				// slice of a slice variable defined outside the loop
				continue
			}
			// is the buffer allocated outside the loop (its block is not in the cycle)?
			if an.CanReach(buf, buf) {
				continue // allocated per iteration
			}
			c.Bad("C14-R7", an.FnKey(fn)+" append of reused buffer", call.Pos(),
				"each iteration appends a view of the same buffer (allocated at %s outside the loop): all encoded elements alias the last value", c.Pos(buf.Pos()))
		}
	}
}

// sameValue reports whether two SSA values denote the same value: identical, or
// loads / field reads with the same access path.
func sameValue(a, b ssa.Value) bool {
	if a == b {
		return true
	}
	pa, ok1 := an.AccessPath(a)
	pb, ok2 := an.AccessPath(b)
	return ok1 && ok2 && pa == pb
}

// c14CodecNames runs the name-agreement rule over the file-cache codec and the
// backend profile conversion.
func c14CodecNames(c *an.Ctx, rule string, fields func(dst, src string) bool, min int) {
	sharedCodecNames(c, rule, func(fn *ssa.Function) bool {
		k := an.FnKey(fn)
		if strings.HasPrefix(k, "profiledb/internal/filecachepb.") {
			return !strings.HasSuffix(c.Pos(fn.Pos()), ".pb.go") && !strings.Contains(c.Pos(fn.Pos()), ".pb.go:")
		}
		return strings.HasPrefix(k, "backendpb.") && !strings.Contains(c.Pos(fn.Pos()), ".pb.go:")
	}, fields, map[string]string{
		"access.ProfileConfig.AllowedASN <- backendpb.AccessSettings.AllowlistAsn":                                  "backend spelling: allowlist = allowed",
		"access.ProfileConfig.BlockedASN <- backendpb.AccessSettings.BlocklistAsn":                                  "backend spelling: blocklist = blocked",
		"agd.AuthSettings.PasswordHash <- backendpb.AuthenticationSettings.DohPasswordHash":                         "the only password is the DoH one",
		"access.ProfileConfig.AllowedASN <- profiledb/internal/filecachepb.Access.AllowlistAsn":                     "cache spelling: allowlist = allowed",
		"access.ProfileConfig.AllowedNets <- profiledb/internal/filecachepb.Access.AllowlistCidr":                   "cache spelling: allowlist CIDRs = allowed subnets",
		"access.ProfileConfig.BlockedASN <- profiledb/internal/filecachepb.Access.BlocklistAsn":                     "cache spelling: blocklist = blocked",
		"access.ProfileConfig.BlockedNets <- profiledb/internal/filecachepb.Access.BlocklistCidr":                   "cache spelling: blocklist CIDRs = blocked subnets",
		"agd.AuthSettings.PasswordHash <- profiledb/internal/filecachepb.AuthenticationSettings.DohPasswordHash":    "the only password is the DoH one",
		"agd.RatelimitConfig.ClientSubnets <- profiledb/internal/filecachepb.Ratelimiter.ClientCidr":                "cache spelling: CIDRs = subnets",
		"profiledb/internal/filecachepb.Access.AllowlistCidr <- access.ProfileConfig.AllowedNets":                   "cache spelling: allowlist CIDRs = allowed subnets",
		"profiledb/internal/filecachepb.Access.BlocklistCidr <- access.ProfileConfig.BlockedNets":                   "cache spelling: blocklist CIDRs = blocked subnets",
		"profiledb/internal/filecachepb.AuthenticationSettings.DohPasswordHash <- agd.AuthSettings.PasswordHash":    "the only password is the DoH one",
		"profiledb/internal/filecachepb.Device.Authentication <- agd.Device.Auth":                                   "abbreviated field",
		"profiledb/internal/filecachepb.Ratelimiter.ClientCidr <- agd.RatelimitConfig.ClientSubnets":                "cache spelling: CIDRs = subnets",
		"filter/internal.ConfigCustom.ID <- backendpb.DNSProfile.DnsId":                                             "the custom filter is identified by its profile's DNS ID",
		"filter.ConfigParental.AdultBlockingEnabled <- backendpb.ParentalSettings.BlockAdult":                       "backend spelling of the adult-blocking switch",
		"filter.ConfigParental.SafeSearchGeneralEnabled <- backendpb.ParentalSettings.GeneralSafeSearch":            "backend spelling of general safe search",
		"filter.ConfigParental.SafeSearchYouTubeEnabled <- backendpb.ParentalSettings.YoutubeSafeSearch":            "backend spelling of YouTube safe search",
		"filter.ConfigSafeBrowsing.DangerousDomainsEnabled <- backendpb.SafeBrowsingSettings.BlockDangerousDomains": "backend spelling of the dangerous-domains switch",
		"filter.ConfigSafeBrowsing.NewlyRegisteredDomainsEnabled <- backendpb.SafeBrowsingSettings.BlockNrd":        "NRD = newly registered domains",
		"backendpb.CreateDeviceRequest.DnsId <- profiledb.StorageCreateAutoDeviceRequest.ProfileID":                 "the backend calls the profile ID the DNS ID",
		"backendpb.ProfileStorage.maxProfSize <- backendpb.ProfileStorageConfig.MaxProfilesSize":                    "abbreviated private field",
		"backendpb.ProfileStorage.respSzEst <- backendpb.ProfileStorageConfig.ResponseSizeEstimate":                 "abbreviated private field",
		"backendpb.DeviceBillingStat.ClientCountry <- billstat.Record.Country":                                      "backend spelling",
		"agd.Device.ID <- profiledb/internal/filecachepb.Device.DeviceId":                                           "cache spelling of the device ID",
		"agd.Device.Name <- profiledb/internal/filecachepb.Device.DeviceName":                                       "cache spelling of the device name",
		"agd.Profile.ID <- profiledb/internal/filecachepb.Profile.ProfileId":                                        "cache spelling of the profile ID",
		"profiledb/internal/filecachepb.Device.DeviceId <- agd.Device.ID":                                           "cache spelling of the device ID",
		"profiledb/internal/filecachepb.Device.DeviceName <- agd.Device.Name":                                       "cache spelling of the device name",
		"profiledb/internal/filecachepb.Profile.ProfileId <- agd.Profile.ID":                                        "cache spelling of the profile ID",
	}, min)
}

// c14Sync holds the decision tables of the synchronisation protocol.
func c14Sync(c *an.Ctx) {
	c14SetTables(c)
	isLog := func(name string) bool {
		return strings.Contains(name, "slog.Logger).") || strings.HasSuffix(name, "errcoll.Collect") || strings.Contains(name, ".metrics.")
	}
	decide(c, "C14-R8", pdb+"Refresh", an.DecideCfg{
		Dom:    an.Domain{"full": an.Bools, "fetcherr": an.Bools, "storeerr": an.Bools},
		Inline: func(f *ssa.Function) bool { return strings.HasPrefix(an.FnKey(f), pdb+"Refresh$") },
		OnCall: func(it *an.Interp, name string, args []an.AV) (an.AV, bool) {
			switch {
			case isLog(name):
				return an.Nil(), true
			case strings.HasSuffix(name, ").needsFullSync"):
				return an.AV{Kind: an.KTuple, Tup: []an.AV{an.Sym("since"), it.Feature("full")}}, true
			case name == "time.Now":
				return an.Sym("now"), true
			case name == "time.Since":
				return an.Sym("dur"), true
			case strings.HasSuffix(name, "agd.NewRequestID"):
				return an.Sym("reqid"), true
			case strings.HasSuffix(name, "agd.WithRequestID"):
				return an.NonNil("ctx2"), true
			case strings.HasSuffix(name, ").fetchProfiles"):
				if args[3].String() != fmt.Sprint(it.Feature("full").IsTrue()) {
					return an.Sym("fetch with another sync mode"), true
				}
				if it.Feature("fetcherr").IsTrue() {
					return an.AV{Kind: an.KTuple, Tup: []an.AV{an.Nil(), an.NonNil("fetchErr")}}, true
				}
				return an.AV{Kind: an.KTuple, Tup: []an.AV{an.NonNil("resp"), an.Nil()}}, true
			case strings.HasSuffix(name, ").setProfiles"):
				return an.Nil(), true
			case name == "p0.cache.Store":
				if it.Feature("storeerr").IsTrue() {
					return an.NonNil("storeErr"), true
				}
				return an.Nil(), true
			case strings.HasSuffix(name, "errors.Annotate"):
				return args[0], true
			case name == "fmt.Errorf":
				return an.NonNil("wrapped"), true
			}
			return an.AV{}, false
		},
		Expect: func(f an.Features, o an.AOutcome) string {
			if o.Exit != "return" || len(o.Ret) != 1 {
				return "an error result"
			}
			var sets, stores []string
			lock, fetch := -1, -1
			for i, e := range o.Effects {
				if e.Kind != "call" {
					continue
				}
				switch {
				case e.Name == "(*sync.Mutex).Lock" && e.Args[0] == "p0.refreshMu":
					lock = i
				case strings.HasSuffix(e.Name, ").fetchProfiles"):
					fetch = i
				case strings.HasSuffix(e.Name, ").setProfiles"):
					sets = append(sets, strings.Join(e.Args[2:], ","))
				case e.Name == "p0.cache.Store":
					stores = append(stores, e.Args[1])
				}
			}
			if lock < 0 || fetch < lock {
				return "the storage queried under refreshMu"
			}
			st := map[string]string{}
			for _, e := range o.Effects {
				if e.Kind == "store" {
					st[e.Name] = e.Args[0]
				}
			}
			if f.B("fetcherr") {
				if len(sets)+len(stores) == 0 && o.Ret[0].Kind != an.KNil && st["p0.syncTime"] == "" {
					return ""
				}
				return "nothing applied and the sync point kept when the storage request fails"
			}
			full := fmt.Sprint(f.B("full"))
			if len(sets) != 1 || sets[0] != "resp.Profiles,resp.Devices,"+full {
				return "exactly the fetched profiles and devices applied, as a full sync iff one was requested; got " + strings.Join(sets, " / ")
			}
			if st["p0.syncTime"] != "resp.SyncTime" {
				return "the sync point advanced to the storage's sync time; got " + st["p0.syncTime"]
			}
			if !f.B("full") {
				if len(stores) == 0 && o.Ret[0].Kind == an.KNil && st["p0.lastFullSync"] == "" {
					return ""
				}
				return "no file-cache write and no full-sync bookkeeping after an incremental sync"
			}
			if len(stores) != 1 {
				return "the file cache written once after a full sync"
			}
			k := strings.TrimPrefix(stores[0], "&")
			for fld, want := range map[string]string{"SyncTime": "resp.SyncTime", "Profiles": "resp.Profiles", "Devices": "resp.Devices"} {
				if got := o.Mem[k+"."+fld].String(); got != want {
					return "the file cache to hold the fetched " + fld + " (" + want + "); got " + got
				}
			}
			ver, _ := c.ConstInt("profiledb/internal", "FileCacheVersion")
			if got := o.Mem[k+".Version"].String(); got != fmt.Sprint(ver) {
				return "the file cache stamped with the current version; got " + got
			}
			if st["p0.lastFullSync"] != "now" || f.B("storeerr") != (o.Ret[0].Kind != an.KNil) {
				return "the full sync recorded and a cache-write error reported"
			}
			return ""
		},
	})
	decide(c, "C14-R8", pdb+"fetchProfiles", an.DecideCfg{
		Dom: an.Domain{"p3": an.Bools, "err": an.Bools},
		OnCall: func(it *an.Interp, name string, args []an.AV) (an.AV, bool) {
			switch {
			case isLog(name):
				return an.Nil(), true
			case name == "p0.storage.Profiles":
				if it.Feature("err").IsTrue() {
					return an.AV{Kind: an.KTuple, Tup: []an.AV{an.Nil(), an.NonNil("storErr")}}, true
				}
				return an.AV{Kind: an.KTuple, Tup: []an.AV{an.NonNil("sr"), an.Nil()}}, true
			case name == "time.Now":
				return an.Sym("now"), true
			case strings.HasSuffix(name, "errors.Is"):
				return an.CBool(false), true
			case name == "fmt.Errorf":
				return an.NonNil("wrapped"), true
			}
			return an.AV{}, false
		},
		Expect: func(f an.Features, o an.AOutcome) string {
			var reqs []string
			for _, e := range o.Effects {
				if e.Kind == "call" && e.Name == "p0.storage.Profiles" {
					reqs = append(reqs, e.Args[1])
				}
			}
			if len(reqs) != 1 {
				return "one storage request"
			}
			k := strings.TrimPrefix(reqs[0], "&")
			got := o.Mem[k+".SyncTime"].String()
			if f.B("p3") {
				if got == "p0.syncTime" {
					return "a full sync to ask for everything (zero sync time), not for changes since the last sync"
				}
			} else if got != "p0.syncTime" {
				return "an incremental sync to ask for changes since the stored sync point; got " + got
			}
			st := map[string]string{}
			for _, e := range o.Effects {
				if e.Kind == "store" {
					st[e.Name] = e.Args[0]
				}
			}
			if v, changed := st["p0.syncTime"]; changed {
				return "the stored sync point left alone by the fetch (it advances only after the response has been applied; a zeroed sync point makes later incremental syncs ask for a full snapshot without clearing the maps); got " + v
			}
			if !f.B("err") {
				if o.RetString() == "nonnil:sr, nil" && st["p0.lastFullSyncError"] == "" {
					return ""
				}
				return "the storage's response returned unchanged"
			}
			if len(o.Ret) != 2 || o.Ret[1].Kind == an.KNil || o.Ret[0].Kind != an.KNil {
				return "an error and no response when the storage fails"
			}
			if f.B("p3") != (st["p0.lastFullSyncError"] == "now") {
				return "a failed full sync (and only that) remembered for the retry interval"
			}
			return ""
		},
	})
	decide(c, "C14-R8", pdb+"needsFullSync", an.DecideCfg{
		Dom: an.Domain{"errzero": an.Bools, "(sincefull < p0.fullSyncIvl)": an.Bools, "(sinceerr < p0.fullSyncRetryIvl)": an.Bools},
		OnCall: func(it *an.Interp, name string, args []an.AV) (an.AV, bool) {
			switch {
			case isLog(name):
				return an.Nil(), true
			case name == "time.Since":
				if args[0].String() == "p0.lastFullSync" {
					return an.Sym("sincefull"), true
				}
				if args[0].String() == "p0.lastFullSyncError" {
					return an.Sym("sinceerr"), true
				}
				return an.Sym("since(" + args[0].String() + ")"), true
			case name == "(time.Time).IsZero":
				if args[0].String() == "p0.lastFullSyncError" {
					return it.Feature("errzero"), true
				}
				return an.Sym("iszero(" + args[0].String() + ")"), true
			}
			return an.AV{}, false
		},
		Expect: func(f an.Features, o an.AOutcome) string {
			want := fmt.Sprintf("sinceerr, %v", !f.B("(sinceerr < p0.fullSyncRetryIvl)"))
			if f.B("errzero") {
				want = fmt.Sprintf("sincefull, %v", !f.B("(sincefull < p0.fullSyncIvl)"))
			}
			if o.RetString() != want {
				return want + " (full sync when the full-sync interval has passed since the last success, or the retry interval since the last failure); got " + o.RetString()
			}
			return ""
		},
	})
	decide(c, "C14-R8", pdb+"loadFileCache", an.DecideCfg{
		Dom: an.Domain{"load": an.Strs("ok", "none", "version", "error"), "len(fc.Profiles)": an.Ints(0, 2), "len(fc.Devices)": an.Ints(0, 2)},
		OnCall: func(it *an.Interp, name string, args []an.AV) (an.AV, bool) {
			switch {
			case isLog(name), strings.HasSuffix(name, "slog.Logger).With"):
				return an.NonNil("logger"), true
			case name == "time.Now", name == "time.Since":
				return an.Sym("t"), true
			case name == "p0.cache.Load":
				switch avStr(it.Feature("load")) {
				case "ok":
					return an.AV{Kind: an.KTuple, Tup: []an.AV{an.NonNil("fc"), an.Nil()}}, true
				case "none":
					return an.AV{Kind: an.KTuple, Tup: []an.AV{an.Nil(), an.Nil()}}, true
				case "version":
					return an.AV{Kind: an.KTuple, Tup: []an.AV{an.Nil(), an.NonNil("err:version")}}, true
				}
				return an.AV{Kind: an.KTuple, Tup: []an.AV{an.Nil(), an.NonNil("err:other")}}, true
			case strings.HasSuffix(name, "errors.Is"):
				return an.CBool(args[0].Kind == an.KNonNil && args[0].Key == "err:version"), true
			case strings.HasSuffix(name, ").setProfiles"):
				return an.Nil(), true
			}
			return an.AV{}, false
		},
		Expect: func(f an.Features, o an.AOutcome) string {
			var sets []string
			for _, e := range o.Effects {
				if e.Kind == "call" && strings.HasSuffix(e.Name, ").setProfiles") {
					sets = append(sets, strings.Join(e.Args[2:], ","))
				}
			}
			st := map[string]string{}
			for _, e := range o.Effects {
				if e.Kind == "store" {
					st[e.Name] = e.Args[0]
				}
			}
			load := f.S("load")
			if load == "error" {
				if len(sets) == 0 && len(o.Ret) == 1 && o.Ret[0].Kind != an.KNil {
					return ""
				}
				return "the load error returned"
			}
			// a cache without profiles is empty; one with profiles and no devices is not (accounts that only use
			// automatically created devices): its profiles are what the database knew when it wrote the cache (F58)
			if load != "ok" || f.I("len(fc.Profiles)") == 0 {
				// a loaded cache without profiles was written by a synchronisation that found none: whether its sync
				// point is restored makes no difference to what later synchronisations deliver, so it is not demanded
				emptyCache := load == "ok"
				if len(sets) == 0 && o.RetString() == "nil" && (st["p0.syncTime"] == "" || emptyCache) {
					return ""
				}
				return "nothing applied (and the sync point untouched, so that the first refresh is a full one) without a usable cache"
			}
			if len(sets) != 1 || sets[0] != "fc.Profiles,fc.Devices,true" {
				return "the cached profiles and devices applied as a full synchronisation; got " + strings.Join(sets, " / ")
			}
			if st["p0.syncTime"] != "fc.SyncTime" || st["p0.lastFullSync"] != "fc.SyncTime" {
				return "the sync point and the last full sync restored from the cache"
			}
			return ""
		},
	})
}

// c14SetTables holds the tables of setProfiles and setDevices: which index
// entries a synchronisation writes.
func c14SetTables(c *an.Ctx) {
	stores := func(o an.AOutcome) map[string]string {
		m := map[string]string{}
		for _, e := range o.Effects {
			if e.Kind == "store" {
				m[e.Name] = e.Args[0]
			}
		}
		return m
	}
	decide(c, "C14-R8", pdb+"setProfiles", an.DecideCfg{
		Dom: an.Domain{"p4": an.Bools, "len(p2)": an.Ints(0, 1, 2), "len(p2[0].DeviceIDs)": an.Ints(0, 2), "len(p2[1].DeviceIDs)": an.Ints(0, 1),
			"p2[0].Deleted": an.Bools, "p2[1].Deleted": an.Bools},
		OnCall: func(it *an.Interp, name string, args []an.AV) (an.AV, bool) {
			switch {
			case strings.HasSuffix(name, ").setDevices"), strings.Contains(name, ".metrics."):
				return an.Nil(), true
			}
			return an.AV{}, false
		},
		Expect: func(f an.Features, o an.AOutcome) string {
			st := stores(o)
			want := map[string]string{}
			n := int(f.I("len(p2)"))
			for i := 0; i < n; i++ {
				pr := fmt.Sprintf("p2[%d]", i)
				want["p0.profiles["+pr+".ID]"] = pr
				for j := 0; j < int(f.I("len("+pr+".DeviceIDs)")); j++ {
					want[fmt.Sprintf("p0.deviceIDToProfileID[%s.DeviceIDs[%d]]", pr, j)] = pr + ".ID"
				}
			}
			for k, v := range want {
				if st[k] != v {
					return fmt.Sprintf("%s = %s (every received profile stored under its ID and each of its devices mapped to it); got %q", k, v, st[k])
				}
			}
			for k, v := range st {
				if (strings.HasPrefix(k, "p0.profiles[") || strings.HasPrefix(k, "p0.deviceIDToProfileID[")) && want[k] != v {
					return "no other profile or device-to-profile entries written; got " + k + "=" + v
				}
			}
			if st["p0.mapsGen"] != "(p0.mapsGen + 1)" {
				return "the generation counter incremented; got " + st["p0.mapsGen"]
			}
			clears, setDev, lastStore := 0, -1, -1
			for i, e := range o.Effects {
				if e.Kind == "call" && e.Name == "builtin.clear" {
					clears++
				}
				if e.Kind == "call" && strings.HasSuffix(e.Name, ").setDevices") {
					if setDev >= 0 || strings.Join(e.Args, ",") != "p0,p1,p3" {
						return "setDevices called once with the received devices"
					}
					setDev = i
				}
				if e.Kind == "store" && strings.HasPrefix(e.Name, "p0.deviceIDToProfileID[") {
					lastStore = i
				}
			}
			if f.B("p4") != (clears == 6) || (!f.B("p4") && clears != 0) {
				return fmt.Sprintf("all six maps cleared exactly on a full synchronisation; %d clears", clears)
			}
			if setDev < 0 || setDev < lastStore {
				return "the devices applied after the profiles (the human-ID index needs the device-to-profile entries)"
			}
			return ""
		},
	})
	decide(c, "C14-R8", pdb+"setDevices", an.DecideCfg{
		Dom: an.Domain{"len(p2)": an.Ints(0, 1, 2), "len(p2[0].DedicatedIPs)": an.Ints(0, 2), "len(p2[1].DedicatedIPs)": an.Ints(0, 1),
			"(p2[0].LinkedIP == zero:net/netip.Addr)": an.Bools, "(p2[1].LinkedIP == zero:net/netip.Addr)": an.Bools, `(p2[0].HumanIDLower == "")`: an.Bools, `(p2[1].HumanIDLower == "")`: an.Bools,
			"p0.deviceIDToProfileID[p2[0].ID]#ok": an.Bools, "p0.deviceIDToProfileID[p2[1].ID]#ok": an.Bools},
		OnCall: func(it *an.Interp, name string, args []an.AV) (an.AV, bool) {
			if strings.Contains(name, "slog.Logger).") {
				return an.Nil(), true
			}
			return an.AV{}, false
		},
		Expect: func(f an.Features, o an.AOutcome) string {
			st := stores(o)
			n := int(f.I("len(p2)"))
			want := map[string]string{}
			for i := 0; i < n; i++ {
				d := fmt.Sprintf("p2[%d]", i)
				want["p0.devices["+d+".ID]"] = d
				for j := 0; j < int(f.I("len("+d+".DedicatedIPs)")); j++ {
					want[fmt.Sprintf("p0.dedicatedIPToDeviceID[%s.DedicatedIPs[%d]]", d, j)] = d + ".ID"
				}
				if !f.B("(" + d + ".LinkedIP == zero:net/netip.Addr)") {
					want["p0.linkedIPToDeviceID["+d+".LinkedIP]"] = d + ".ID"
				}
			}
			for k, v := range want {
				if st[k] != v {
					return fmt.Sprintf("%s = %s; got %q", k, v, st[k])
				}
			}
			nHuman := 0
			for k, v := range st {
				switch {
				case strings.HasPrefix(k, "p0.humanIDToDeviceID["):
					nHuman++
					_ = v
				case strings.HasPrefix(k, "p0."):
					if want[k] != v {
						return "no other index entries written; got " + k + "=" + v
					}
				}
			}
			wantHuman := 0
			for i := 0; i < n; i++ {
				d := fmt.Sprintf("p2[%d]", i)
				if !f.B(`(`+d+`.HumanIDLower == "")`) && f.B("p0.deviceIDToProfileID["+d+".ID]#ok") {
					wantHuman++
				}
			}
			for _, e := range o.Effects {
				if e.Kind == "call" && (e.Name == "builtin.delete" || e.Name == "builtin.clear") {
					return "a synchronisation only adds or overwrites index entries (stale ones are removed by the re-validated clean-ups); got " + e.String()
				}
			}
			if nHuman != wantHuman {
				return fmt.Sprintf("a human-ID entry exactly for devices that have a human ID and a known profile (%d); got %d", wantHuman, nHuman)
			}
			return ""
		},
	})
}

// c14WeekTables checks both directions of the weekly-schedule codecs.  The
// internal schedule is an array indexed by time.Weekday (Sunday = 0); the
// protobuf messages have one field per day.  Every element 0..6 must be written
// from the field of its own day, either by seven constant-index stores or by a
// loop over a seven-element list of the day fields in weekday order that visits
// all seven; and every day field must be written from its own element.
func c14WeekTables(c *an.Ctx, rule string) {
	days := []string{"sun", "mon", "tue", "wed", "thu", "fri", "sat"}
	isWeek := func(t types.Type) bool {
		return an.TypeName(t) == "filter.WeeklySchedule" || an.TypeName(an.Deref(t)) == "filter.WeeklySchedule"
	}
	unconv := func(v ssa.Value) ssa.Value {
		for {
			switch x := v.(type) {
			case *ssa.Convert:
				v = x.X
			case *ssa.ChangeType:
				v = x.X
			default:
				return v
			}
		}
	}
	// srcField: the field a value is converted from (through one-operand repo converters)
	var srcField func(v ssa.Value, d int) string
	srcField = func(v ssa.Value, d int) string {
		if d > 6 {
			return ""
		}
		switch x := v.(type) {
		case *ssa.Call:
			if len(x.Call.Args) == 1 && !x.Call.IsInvoke() {
				return srcField(x.Call.Args[0], d+1)
			}
		case *ssa.UnOp:
			if x.Op == token.MUL {
				if _, f, _, ok := an.FieldOf(x.X); ok {
					return f
				}
			}
		case *ssa.Extract:
			return srcField(x.Tuple, d+1)
		case *ssa.Convert:
			return srcField(x.X, d+1)
		}
		return ""
	}
	sites := 0
	for _, fn := range c.AllFns {
		if fn.Blocks == nil || c.IsTestFile(fn.Pos()) || strings.Contains(c.Pos(fn.Pos()), ".pb.go:") {
			continue
		}
		k := an.FnKey(fn)
		if (!strings.HasPrefix(k, "backendpb.") && !strings.HasPrefix(k, "profiledb/")) || strings.Contains(k, "profiledbtest.") {
			continue
		}
		consts := map[int64]ssa.Value{}
		var constPos token.Pos
		an.Instrs(fn, func(in ssa.Instruction) {
			switch x := in.(type) {
			case *ssa.Store:
				// ---- to the internal array
				ia, ok := x.Addr.(*ssa.IndexAddr)
				if ok && isWeek(ia.X.Type()) {
					if kv, isK := an.ConstInt(ia.Index); isK {
						consts[kv] = x.Val
						constPos = x.Pos()
						return
					}
					sites++
					c.Analysed(k)
					key := k + " fills the week by a loop"
					idx := unconv(ia.Index)
					// the loop around the store
					var loop *loopInfo
					for _, l := range naturalLoops(fn) {
						if l.blocks[x.Block()] && (loop == nil || len(l.blocks) < len(loop.blocks)) {
							loop = l
						}
					}
					if loop == nil {
						c.Und(rule, key, x.Pos(), "a variable-index store outside a loop")
						return
					}
					// the list of day fields indexed by the same variable
					var list ssa.Value
					for b := range loop.blocks {
						for _, ins := range b.Instrs {
							if ia2, ok := ins.(*ssa.IndexAddr); ok && !isWeek(ia2.X.Type()) && unconv(ia2.Index) == idx {
								list = ia2.X
							}
						}
					}
					if list == nil {
						c.Und(rule, key, x.Pos(), "no list of day fields indexed by the loop variable")
						return
					}
					// its literal: seven fields in weekday order
					var arr *ssa.Alloc
					if sl, ok := list.(*ssa.Slice); ok {
						arr, _ = sl.X.(*ssa.Alloc)
					}
					if arr == nil || arr.Referrers() == nil {
						c.Und(rule, key, x.Pos(), "the list of day fields is not a literal")
						return
					}
					got := map[int64]string{}
					for _, r := range *arr.Referrers() {
						if ea, ok := r.(*ssa.IndexAddr); ok && ea.Referrers() != nil {
							if kv, isK := an.ConstInt(ea.Index); isK {
								for _, rr := range *ea.Referrers() {
									if st2, ok := rr.(*ssa.Store); ok && st2.Addr == ssa.Value(ea) {
										got[kv] = strings.ToLower(srcField(st2.Val, 0))
									}
								}
							}
						}
					}
					bad := ""
					for i, d := range days {
						if !strings.HasPrefix(got[int64(i)], d) {
							bad = fmt.Sprintf("element %d of the list is %q, not the field of %s", i, got[int64(i)], d)
						}
					}
					if len(got) != 7 {
						bad = fmt.Sprintf("the list has %d elements", len(got))
					}
					// the loop's bound
					hdrIf, _ := loop.header.Instrs[len(loop.header.Instrs)-1].(*ssa.If)
					if hdrIf == nil {
						c.Und(rule, key, x.Pos(), "loop header without a condition")
						return
					}
					if cond, ok := hdrIf.Cond.(*ssa.BinOp); ok && bad == "" {
						switch {
						case cond.Op == token.LSS && isLenOf(cond.Y, list):
						case cond.Op == token.LSS || cond.Op == token.LEQ:
							kv, isK := an.ConstInt(cond.Y)
							if cond.Op == token.LEQ {
								kv++
							}
							if !isK {
								c.Und(rule, key, x.Pos(), "loop bound not recognised")
								return
							}
							if kv < 7 {
								bad = fmt.Sprintf("the loop stops before index %d: %s is never converted", kv, days[kv])
							}
							// a counted loop starts at Sunday
							if phi, ok := unconv(cond.X).(*ssa.Phi); ok {
								for i, e := range phi.Edges {
									if !loop.blocks[phi.Block().Preds[i]] {
										if s, isK := an.ConstInt(e); !isK || s != 0 {
											bad = "the loop does not start at index 0 (Sunday)"
										}
									}
								}
							}
						default:
							c.Und(rule, key, x.Pos(), "loop condition not recognised")
							return
						}
					} else if bad == "" {
						c.Und(rule, key, x.Pos(), "loop condition not recognised")
						return
					}
					c.Check(bad == "", rule, key, x.Pos(), "the loop converts all seven days from a list in weekday order", bad)
					return
				}
				// ---- from the internal array to a per-day field
				if _, f, _, ok := an.FieldOf(x.Addr); ok {
					v := x.Val
					for {
						call, isCall := v.(*ssa.Call)
						if !isCall || len(call.Call.Args) != 1 || call.Call.IsInvoke() {
							break
						}
						v = call.Call.Args[0]
					}
					if ld, isLd := v.(*ssa.UnOp); isLd && ld.Op == token.MUL {
						if ia3, isIA := ld.X.(*ssa.IndexAddr); isIA && isWeek(ia3.X.Type()) {
							sites++
							c.Analysed(k)
							kv, isK := an.ConstInt(ia3.Index)
							c.Check(isK && kv >= 0 && kv < 7 && strings.HasPrefix(strings.ToLower(f), days[kv]), rule,
								k+" day field "+f, x.Pos(), "written from its own weekday's element",
								fmt.Sprintf("day field %s is written from element %d of the week", f, kv))
						}
					}
				}
			}
		})
		if len(consts) > 0 {
			sites++
			c.Analysed(k)
			bad := ""
			for i, d := range days {
				v, ok := consts[int64(i)]
				if !ok {
					bad = fmt.Sprintf("element %d (%s) is never set", i, d)
					continue
				}
				if f := strings.ToLower(srcField(v, 0)); !strings.HasPrefix(f, d) {
					bad = fmt.Sprintf("element %d (%s) is set from field %q", i, d, f)
				}
			}
			c.Check(bad == "", rule, k+" fills the week element by element", constPos,
				"all seven days are set, each from its own field", bad)
		}
	}
	if sites < 9 {
		c.Und(rule, "weekly-schedule codecs", token.NoPos, "only %d conversion sites recognised (expected the two decoders and the seven-field encoder)", sites)
	}
}

// c14HumanIDProfile: the human-ID index is keyed by (profile, human ID), and
// stale keys are removed lazily.  A lookup under profile P that finds a device
// through such a key must re-check, before it answers, that the profile which
// currently contains the device is P itself: after the device has been moved to
// another profile by an incremental sync the old key still resolves, to the
// *new* profile.  The success return of ProfileByHumanID must therefore be
// dominated by a comparison of the found profile's ID with the requested one.
func c14HumanIDProfile(c *an.Ctx) {
	const k = "profiledb.(*Default).ProfileByHumanID"
	key := k + " re-checks the profile of the device it found"
	fn := c.Fn(k)
	if fn == nil {
		c.Und("C14-R15", key, token.NoPos, "anchor not found")
		return
	}
	c.Analysed(k)
	var idParam ssa.Value
	for _, pa := range fn.Params {
		if an.TypeName(pa.Type()) == "agd.ProfileID" {
			idParam = pa
		}
	}
	if idParam == nil {
		c.Und("C14-R15", key, fn.Pos(), "no profile-ID parameter")
		return
	}
	n, ok := 0, true
	for _, r := range an.Returns(fn) {
		if len(r.Results) != 3 {
			continue
		}
		// the success return: "return p, d, nil" (with a deferred unlock the named results are cells, and the
		// nil is stored into the error cell in the returning block)
		success := an.IsNilConst(r.Results[2]) && !an.IsNilConst(r.Results[0])
		if ld, isLd := r.Results[2].(*ssa.UnOp); isLd && ld.Op == token.MUL {
			for _, in := range r.Block().Instrs {
				if st, isSt := in.(*ssa.Store); isSt && st.Addr == ld.X && an.IsNilConst(st.Val) {
					success = true
				}
			}
			// and the profile result is not nil
			if pl, isPl := r.Results[0].(*ssa.UnOp); isPl && pl.Op == token.MUL {
				for _, in := range r.Block().Instrs {
					if st, isSt := in.(*ssa.Store); isSt && st.Addr == pl.X && an.IsNilConst(st.Val) {
						success = false
					}
				}
			}
		}
		if !success {
			continue
		}
		n++
		checked := false
		for _, e := range an.DominatingConds(r.Block()) {
			bo, isBo := e.If.Cond.(*ssa.BinOp)
			if !isBo || (bo.Op != token.EQL && bo.Op != token.NEQ) {
				continue
			}
			for _, pair := range [][2]ssa.Value{{bo.X, bo.Y}, {bo.Y, bo.X}} {
				if pair[0] != idParam {
					continue
				}
				// the other side: the ID field of the profile found through the device
				if ld, isLd := pair[1].(*ssa.UnOp); isLd && ld.Op == token.MUL {
					if typ, f, _, okF := an.FieldOf(ld.X); okF && typ == "agd.Profile" && f == "ID" {
						// equal on the edge that reaches the return
						if (bo.Op == token.EQL) == e.Branch {
							checked = true
						}
					}
				}
			}
		}
		if !checked {
			ok = false
		}
	}
	if n == 0 {
		c.Und("C14-R15", key, fn.Pos(), "no success return found")
		return
	}
	c.Check(ok, "C14-R15", key, fn.Pos(), "the found profile's ID is compared with the requested one before the lookup succeeds",
		"the lookup succeeds without comparing the profile that contains the found device with the requested profile: after a device has been moved to another profile, its old (profile, human ID) key is answered with the other profile")
}

// c14CleanupSameIndex: a lookup that finds a stale entry in one of the index
// maps starts a clean-up goroutine for it; the clean-up deletes from the very
// map the stale entry was read from.  For every `go db.removeX(…)` in the
// profile database, every map field that removeX deletes from must be one the
// starting function looks a key up in; a clean-up that deletes from another
// index removes a valid entry of that index (a key its device currently owns
// answers not-found) and leaves the stale one in place.
func c14CleanupSameIndex(c *an.Ctx, rule string) (examined int) {
	mapField := func(v ssa.Value) string {
		if ld, ok := v.(*ssa.UnOp); ok && ld.Op == token.MUL {
			if typ, f, _, ok := an.FieldOf(ld.X); ok && strings.HasSuffix(typ, "profiledb.Default") {
				return f
			}
		}
		return ""
	}
	for _, fn := range c.Prog.FnsMatching("profiledb.(*Default).") {
		if fn.Blocks == nil || c.IsTestFile(fn.Pos()) {
			continue
		}
		read := map[string]bool{}
		an.Instrs(fn, func(in ssa.Instruction) {
			if lk, ok := in.(*ssa.Lookup); ok {
				if f := mapField(lk.X); f != "" {
					read[f] = true
				}
			}
		})
		for _, call := range an.Calls(fn) {
			g, ok := call.(*ssa.Go)
			if !ok {
				continue
			}
			callee := an.StaticCallee(g)
			if callee == nil || !strings.HasPrefix(callee.Name(), "remove") {
				continue
			}
			examined++
			c.Analysed(an.FnKey(fn))
			var foreign []string
			n := 0
			for _, cl := range an.Calls(callee) {
				cv, ok := cl.(*ssa.Call)
				if !ok {
					continue
				}
				if b, ok := cv.Call.Value.(*ssa.Builtin); ok && b.Name() == "delete" {
					n++
					if f := mapField(cv.Call.Args[0]); f == "" || !read[f] {
						foreign = append(foreign, f+" ("+c.Pos(cv.Pos())+")")
					}
				}
			}
			c.Check(n > 0 && len(foreign) == 0, rule, fmt.Sprintf("%s cleans up through %s the index it read", an.FnKey(fn), callee.Name()), g.Pos(),
				fmt.Sprintf("%d deletions, each from a map the lookup reads", n),
				"the clean-up deletes from "+strings.Join(foreign, ", ")+", which the lookup that starts it does not read: a valid entry of another index is removed and the stale one stays")
		}
	}
	return examined
}

// c14BindSetComplete: backendpb rejects a device whose dedicated address is not
// in the bind set built by cmd.(*builder).setServerGroupProperties.  When the
// subnet form of the set is used, it has to hold the single-address binds too.
// Every append to the slice that goes to netutil.SliceSubnetSet is free of a
// dominating test of (netip.Prefix).IsSingleIP.
func c14BindSetComplete(c *an.Ctx, rule string) {
	k := "cmd.(*builder).setServerGroupProperties"
	fn := c.Prog.Fn(k)
	key := k + " puts every bind prefix into the subnet set"
	if fn == nil {
		c.Und(rule, key, token.NoPos, "anchor not found")
		return
	}
	c.Analysed(k)
	n, bad := 0, ""
	for _, call := range an.Calls(fn) {
		b, ok := call.Common().Value.(*ssa.Builtin)
		if !ok || b.Name() != "append" {
			continue
		}
		if sl, ok := call.Value().Type().Underlying().(*types.Slice); !ok || !strings.HasSuffix(sl.Elem().String(), "netip.Prefix") {
			continue
		}
		n++
		for _, e := range an.DominatingConds(call.Block()) {
			cond := e.If.Cond
			if u, ok := cond.(*ssa.UnOp); ok && u.Op == token.NOT {
				cond = u.X
			}
			if cl, ok := cond.(*ssa.Call); ok && an.CalleeName(cl) == "(net/netip.Prefix).IsSingleIP" {
				bad = "the append at " + c.Pos(call.Pos()) + " is made under a test of IsSingleIP (" + c.Pos(e.If.Pos()) + ")"
			}
		}
	}
	if n == 0 {
		c.Und(rule, key, fn.Pos(), "no append of bind prefixes found")
		return
	}
	c.Check(bad == "", rule, key, fn.Pos(), fmt.Sprintf("%d append(s) of bind prefixes, none under a test of IsSingleIP", n),
		bad+": with real subnets and single addresses mixed in the bind data, the single addresses are missing from the set, and every device whose dedicated address is one of them is rejected at each synchronisation")
}

// c14ScheduleVerbatim: in (*DayInterval).toInternal and dayIntervalToProtobuf
// the value stored into Start / End is, after conversions, the load of the
// source's field of the same name: no arithmetic, no clamp (End may be 1440,
// one more than the largest Start).
func c14ScheduleVerbatim(c *an.Ctx, rule string) {
	for _, k := range []string{"profiledb/internal/filecachepb.(*DayInterval).toInternal", "profiledb/internal/filecachepb.dayIntervalToProtobuf"} {
		fn := c.Prog.Fn(k)
		if fn == nil {
			c.Und(rule, k, token.NoPos, "anchor not found")
			continue
		}
		c.Analysed(k)
		n := 0
		an.Instrs(fn, func(in ssa.Instruction) {
			st, ok := in.(*ssa.Store)
			if !ok {
				return
			}
			t, f, _, ok := an.FieldOf(st.Addr)
			if !ok || !strings.HasSuffix(t, "DayInterval") || f != "Start" && f != "End" {
				return
			}
			n++
			v := st.Val
			for {
				if cv, isCv := v.(*ssa.Convert); isCv {
					v = cv.X
					continue
				}
				if ct, isCt := v.(*ssa.ChangeType); isCt {
					v = ct.X
					continue
				}
				break
			}
			src := ""
			if ld, isLd := v.(*ssa.UnOp); isLd && ld.Op == token.MUL {
				if _, sf, _, ok := an.FieldOf(ld.X); ok {
					src = sf
				}
			}
			c.Check(src == f, rule, fmt.Sprintf("%s: %s is copied as it is", k, f), st.Pos(), "a conversion of the source's "+f,
				fmt.Sprintf("the %s of the interval is stored from %s, not from a plain conversion of the source's %s: the minutes of a pause schedule change on the way through the file cache (an interval that runs to midnight loses its last minute)", f, v.String(), f))
		})
		if n == 0 {
			c.Und(rule, k, fn.Pos(), "no store into Start / End found")
		}
	}
}

// c14ExactCacheVersion: filecachepb.(*Storage).Load compares the version stored
// in the file with internal.FileCacheVersion and returns CacheVersionError when
// they differ.  The comparison is an inequality test (!=, or == with the
// branches the other way round); an ordering test lets files of another layout
// through on one side.
func c14ExactCacheVersion(c *an.Ctx, rule string) {
	k := "profiledb/internal/filecachepb.(*Storage).Load"
	fn := c.Prog.Fn(k)
	key := k + " refuses every cache version but its own"
	if fn == nil {
		c.Und(rule, key, token.NoPos, "anchor not found")
		return
	}
	c.Analysed(k)
	n, bad := 0, ""
	an.Instrs(fn, func(in ssa.Instruction) {
		b, ok := in.(*ssa.BinOp)
		if !ok {
			return
		}
		isVersion := func(v ssa.Value) bool {
			for {
				switch x := v.(type) {
				case *ssa.Convert:
					v = x.X
					continue
				case *ssa.ChangeType:
					v = x.X
					continue
				case *ssa.UnOp:
					if x.Op == token.MUL {
						if _, f, _, ok := an.FieldOf(x.X); ok && f == "Version" {
							return true
						}
					}
				case *ssa.Call:
					// the generated getter
					if callee := an.StaticCallee(x); callee != nil && callee.Name() == "GetVersion" {
						return true
					}
				}
				return false
			}
		}
		if !(isVersion(b.X) || isVersion(b.Y)) {
			return
		}
		n++
		if b.Op != token.NEQ && b.Op != token.EQL {
			bad = "the file's version is compared with " + b.Op.String() + " at " + c.Pos(b.Pos())
		}
	})
	if n == 0 {
		c.Und(rule, key, fn.Pos(), "no comparison of the file's version found")
		return
	}
	c.Check(bad == "", rule, key, fn.Pos(), fmt.Sprintf("%d comparison(s), all (in)equality tests", n),
		bad+": files of another layout version are accepted on one side; their records decode with the fields that did not exist yet left empty, and the incremental synchronisation that follows a cache load does not repair devices that did not change")
}

// c14RatelimitConfigEnabled: agd.(*DefaultRatelimiter).Config is what the file
// cache serialises.  Its Enabled is the constant true.
func c14RatelimitConfigEnabled(c *an.Ctx, rule string) {
	k := "agd.(*DefaultRatelimiter).Config"
	fn := c.Prog.Fn(k)
	key := k + " reports an enabled limit"
	if fn == nil {
		c.Und(rule, key, token.NoPos, "anchor not found")
		return
	}
	c.Analysed(k)
	ok, found := false, false
	an.Instrs(fn, func(in ssa.Instruction) {
		if st, isSt := in.(*ssa.Store); isSt {
			if _, f, _, isF := an.FieldOf(st.Addr); isF && f == "Enabled" {
				found = true
				if kc, isK := st.Val.(*ssa.Const); isK && kc.Value != nil && kc.Value.String() == "true" {
					ok = true
				}
			}
		}
	})
	if !found {
		c.Und(rule, key, fn.Pos(), "no store into Enabled found")
		return
	}
	c.Check(ok, rule, key, fn.Pos(), "Enabled is the constant true",
		"the Enabled of the serialised limit is computed, not the constant true: a profile whose custom limit is enabled with zero requests per second (drop everything) comes back from the file cache with the limit off")
}

// c14DeletedFilteredCentrally: the profile database keeps a profile that an
// incremental synchronisation marked deleted; the device finder turns such a
// find into "not found".  findDevice, through which every kind of lookup
// returns, reads Profile.Deleted.
func c14DeletedFilteredCentrally(c *an.Ctx, rule string) {
	k := "dnssvc/internal/devicefinder.(*Default).findDevice"
	fn := c.Prog.Fn(k)
	key := k + " drops devices of deleted profiles for every kind of lookup"
	if fn == nil {
		c.Und(rule, key, token.NoPos, "anchor not found")
		return
	}
	c.Analysed(k)
	reads := false
	an.Instrs(fn, func(in ssa.Instruction) {
		if fa, ok := in.(*ssa.FieldAddr); ok {
			if t, f, _, ok := an.FieldOf(fa); ok && strings.HasSuffix(t, "agd.Profile") && f == "Deleted" {
				reads = true
			}
		}
	})
	c.Check(reads, rule, key, fn.Pos(), "findDevice tests Profile.Deleted",
		"findDevice no longer tests the Deleted mark of the found profile: a lookup path that builds its result without the common helper (the dedicated-address path) keeps recognising the devices of a deleted profile while the other lookups answer not found")
}
