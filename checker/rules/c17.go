package rules

import (
	"fmt"
	"go/constant"
	"go/token"
	"go/types"
	"sort"
	"strings"

	"adgverif/an"

	"golang.org/x/tools/go/ssa"
)

func init() {
	register(&Property{ID: "C17", Technique: "decision-tree extraction of the forwarding handler, the per-upstream health probe and the reply validation; lock-held and who-may-write rules for the active-upstream set; pointer-provenance rule for the probe state",
		Run: runC17, Explain: an.Explanation{
			Text: "R1: forward.(*Handler).ServeDNS: the main upstream is tried exactly when one is active; a fallback is tried, once, " +
				"exactly when no main upstream is active or the main exchange failed with a network error, and only if fallbacks " +
				"exist; the response is written only when the last exchange returned a response without error, otherwise an error is " +
				"returned (the server answers SERVFAIL, C01-R2). R2: the set of active upstreams is replaced only by healthcheck, " +
				"under its write lock, and healthcheck runs only when fallbacks are configured; each probe receives the handler's " +
				"own status record (not a copy). R3: healthcheckUpstream: within the backoff period after a failed probe the " +
				"upstream is skipped and stays inactive; otherwise a failed probe stamps the failure time into the status record and " +
				"a successful probe clears it. R4: readValidMsg returns a nil error only after validatePlainResponse accepted the " +
				"reply, and that function accepts only replies whose ID, question count, question type and (case-insensitively) " +
				"name equal the request's.",
			NotCovered: "the up/down state machine over all fault sequences and the timing of the backoff (run-time quantities).",
			Rules: map[string]string{"C17-R20": "packReq sends what PackBuffer packed: the returned slice (a new one when the buffer is not longer than the message) is copied into the pooled buffer, so a query exactly as long as the buffer does not go out as the buffer's previous contents", "C17-R19": "packReq: every PackBuffer into the pooled buffer is behind a comparison of the query's length with the buffer's length (an oversized query is an error, not a partly sent one)", "C17-R18": "the forwarder's metrics listener classifies errors without calling a method of a net.Error it did not find: a call on the target of errors.As is made only where errors.As reported true (a panic in the deferred metrics call takes the response with it)", "C17-R17": "the health-check probe is an ordinary recursive query (RecursionDesired set): a recursive upstream answers it like a client's query and not with REFUSED for an uncached name", "C17-R16": "the refresh worker runs one refresh at a time in its own goroutine (shared with C13-R11): two health-check rounds never overlap, so an older round cannot overwrite the result of a newer one", "C17-R15": "cmd.splitUpstreamURL returns the network named by the URL scheme: on the successful return the network is, on the path through the scheme check, the converted u.Scheme (a tcp:// upstream is asked over TCP and not over UDP first), and NetworkAny only for an address without a scheme", "C17-R14": "the health check gives every main upstream a time budget of its own: the probes inside the loop over the upstreams run either concurrently or under a context derived inside the loop, not one after another under the round's single deadline (F54)", "C17-R13": "NewUpstreamPlain: the buffers for exchanges over TCP hold a whole DNS message (at least 65535 bytes: readMsg slices the buffer to the length the upstream announces), the UDP buffers at least the EDNS size the forwarder can be offered (4096)", "C17-R12": "UpstreamPlain.getBuffer and putBuffer map each network to the same buffer pool", "C17-R11": "a buffer that is both sent and received into is filled again before it is sent a second time (the retry after a failed exchange sends the query, not the remains of a partial response)", "C17-R10": "isExpectedConnErr is net.Error-or-EOF on non-nil errors; the forward metrics listener tolerates the nil response of a failed exchange", "C17-R9": "the fail-over decision classifies exchange errors with the same helper as the retry (net.Error or io.EOF)", "C17-RC": "class rules (error chains, shadowed results, character classes, crossed arguments, pool constructors, array pools, loop completeness, loop-carried buffers, replacing setters, complete clones, Grow arithmetic, pooled-buffer escape, sorted searches, fresh decode targets, per-iteration objects, whole-message copies, codec guards) over the packages this property rests on", "C17-R8": "every fmt.Errorf that reports an error value wraps it with %w (the fail-over decision classifies causes with errors.As)", "C17-R7": "upstream connection pool: Get hands out only connections that passed the idle-expiry test (expired ones are closed), Put queues or closes", "C17-R1": "ServeDNS fail-over table", "C17-R2": "who replaces the active set, under which lock and gate",
				"C17-R3": "health probe state table", "C17-R5": "configuration wiring: main servers, fallback servers and health-check settings of the configuration reach the handler's fields of the same meaning",
				"C17-R4": "reply validation tables"},
		}})
}

func runC17(c *an.Ctx) {
	c.Floor("C17-R20", 2)
	if n := c17PackedBytesAreSent(c, "C17-R20"); n < 2 {
		c.Und("C17-R20", "PackBuffer calls", 0, "%d PackBuffer calls found in packReq, 2 expected", n)
	}
	c.Floor("C17-R19", 2)
	if n := c17PackReqBounded(c, "C17-R19"); n < 2 {
		c.Und("C17-R19", "PackBuffer calls", 0, "%d PackBuffer calls found in packReq, 2 expected", n)
	}
	// ---- R18: no method call on an errors.As target that was not found
	if n := c17AsTargetGuarded(c, "C17-R18"); n < 1 {
		c.Und("C17-R18", "errors.As targets in the forwarding metrics", token.NoPos, "no method call on an errors.As target found in dnsserver/prometheus or dnsserver/forward")
	}
	// ---- R17: the probe asks for recursion
	c.Floor("C17-R17", 1)
	c17ProbeRecursive(c, "C17-R17")
	// ---- R16: health-check rounds do not overlap (shared with C13-R11)
	c.Floor("C17-R16", 1)
	refreshWorkerRules(c, "C17-R16")
	// ---- R15: the scheme of an upstream address decides its network
	c.Floor("C17-R15", 1)
	c17SchemeIsNetwork(c, "C17-R15")
	// ---- R14: one silent upstream does not use up the other probes' time
	c.Floor("C17-R14", 1)
	c17ProbeBudgets(c, "C17-R14")
	// ---- R13: the forwarder's buffer pools are large enough for their transport
	c.Floor("C17-R13", 2)
	c17BufferPools(c, "C17-R13")
	// ---- R12: the buffer pools of an upstream: taken from and returned to the pool of the same network
	c.Floor("C17-R12", 1)
	c17BufferPoolsAgree(c, "C17-R12")
	c.Floor("C17-R10", 2)
	c17ConnErrClass(c)
	if n := sharedSendBufferIntact(c, "C17-R11", "dnsserver/forward."); n < 1 {
		c.Und("C17-R11", "send/receive buffers of the forwarder", token.NoPos, "no buffer that is both sent and received into found (anchor: exchangeNet)")
	}
	c.Floor("C17-R9", 1)
	c17ErrClassAgreement(c)
	classSweep(c, "C17")
	// ---- R8: errors keep their cause on the way to the fail-over decision (ServeDNS classifies them as network errors)
	if n := sharedErrorChain(c, "C17-R8", errChainExceptions, ""); n < 20 {
		c.Und("C17-R8", "error wrapping", token.NoPos, "only %d fmt.Errorf calls with an error argument found", n)
	}
	c17Pool(c)
	// ---- C17-R6: builder wiring of the components this property rests on
	c.Floor("C17-R6", 1)
	builderWiring(c, "C17-R6", map[string][]string{
		"initDNS|dnssvc.HandlersConfig": {"Handler"},
	})
	c.Floor("C17-R1", 1)
	c.Floor("C17-R2", 4)
	c.Floor("C17-R3", 3)
	c.Floor("C17-R4", 3)
	const fw = "dnsserver/forward."

	// ---- R1
	decide(c, "C17-R1", fw+"(*Handler).ServeDNS", an.DecideCfg{
		Dom: an.Domain{"active": an.Bools, "mainerr": an.Bools, "neterr": an.Bools, "len(p0.fallbacks)": an.Ints(0, 2),
			"fberr": an.Bools, "mainresp": an.Bools, "fbresp": an.Bools, "werr": an.Bools},
		Inline: func(f *ssa.Function) bool { return an.FnKey(f) == fw+"(*Handler).ServeDNS$1" },
		OnCall: func(it *an.Interp, name string, args []an.AV) (an.AV, bool) {
			switch {
			case strings.HasSuffix(name, ").pickActiveUpstream"):
				if it.Feature("active").IsTrue() {
					return an.NonNil("mainUps"), true
				}
				return an.Nil(), true
			case strings.HasSuffix(name, "Handler).exchange"):
				k := "fb"
				if args[2].String() == "nonnil:mainUps" {
					k = "main"
				}
				resp := an.Nil()
				if it.Feature(k + "resp").IsTrue() {
					resp = an.NonNil(k + "Resp")
				}
				if it.Feature(k + "err").IsTrue() {
					// an exchange can fail and still hand back a message: the reply that did not pass validation
					return an.AV{Kind: an.KTuple, Tup: []an.AV{resp, an.NonNil(k + "Err")}}, true
				}
				return an.AV{Kind: an.KTuple, Tup: []an.AV{resp, an.Nil()}}, true
			case strings.HasSuffix(name, "errors.As"):
				return it.Feature("neterr"), true
			case strings.HasSuffix(name, "forward.isExpectedConnErr"):
				// F23: the fail-over decision uses the package's one definition of a connection failure
				// (net.Error or io.EOF); "neterr" stands for that class.  A nil error is not one.
				if len(args) == 1 && args[0].Kind == an.KNil {
					return an.CBool(false), true
				}
				return it.Feature("neterr"), true
			case name == "p0.rand.Intn", strings.HasSuffix(name, ".Intn"):
				return an.CInt(1), true
			case name == "fmt.Errorf":
				return an.NonNil("wrapped"), true
			case strings.HasSuffix(name, "forward.annotate"):
				return args[0], true
			case name == "p2.WriteMsg":
				if it.Feature("werr").IsTrue() {
					return an.NonNil("writeErr"), true
				}
				return an.Nil(), true
			}
			return an.AV{}, false
		},
		Expect: func(f an.Features, o an.AOutcome) string {
			var ex, wr []string
			for _, e := range o.Effects {
				if e.Kind == "call" && strings.HasSuffix(e.Name, "Handler).exchange") {
					ex = append(ex, e.Args[2])
				}
				if e.Kind == "call" && e.Name == "p2.WriteMsg" {
					wr = append(wr, strings.Join(e.Args, ","))
				}
			}
			var want []string
			useFB := !f.B("active")
			finalErr, finalResp := false, ""
			if f.B("active") {
				want = append(want, "nonnil:mainUps")
				finalErr = f.B("mainerr")
				if !finalErr && f.B("mainresp") {
					finalResp = "nonnil:mainResp"
				}
				useFB = f.B("mainerr") && f.B("neterr")
			}
			if useFB && f.I("len(p0.fallbacks)") > 0 {
				want = append(want, "p0.fallbacks[1]")
				finalErr = f.B("fberr")
				finalResp = ""
				if !finalErr && f.B("fbresp") {
					finalResp = "nonnil:fbResp"
				}
			}
			if strings.Join(ex, " ") != strings.Join(want, " ") {
				return fmt.Sprintf("exchanges %v (fallback once, only without an active main upstream or after a network error); got %v", want, ex)
			}
			if o.Exit != "return" || len(o.Ret) != 1 {
				return "an error result"
			}
			if finalErr || finalResp == "" {
				if len(wr) == 0 && o.Ret[0].Kind != an.KNil {
					return ""
				}
				return "an error and no write when the last exchange failed or returned nothing"
			}
			if len(wr) == 1 && wr[0] == "p1,p3,"+finalResp && (o.Ret[0].Kind == an.KNil) == !f.B("werr") {
				return ""
			}
			return "exactly one write of the last exchange's response " + finalResp + "; got " + fmt.Sprint(wr)
		},
	})

	// ---- R2
	cache := map[*ssa.Function]map[ssa.Instruction]an.Held{}
	for _, fn := range c.FnsMatching(fw) {
		if c.IsTestFile(fn.Pos()) {
			continue
		}
		an.Instrs(fn, func(in ssa.Instruction) {
			st, ok := in.(*ssa.Store)
			if !ok {
				return
			}
			typ, field, _, ok := an.FieldOf(st.Addr)
			if !ok || typ != "dnsserver/forward.Handler" || field != "activeUpstreams" {
				return
			}
			k := an.FnKey(fn)
			key := k + " stores activeUpstreams"
			switch {
			case k == fw+"NewHandler":
				c.Ok("C17-R2", key, st.Pos(), "constructor: all main upstreams start active")
			case k == fw+"(*Handler).healthcheck":
				if m, _ := c.HeldAt(st, "activeUpstreamsMu", 0, cache); m == "w" {
					c.Ok("C17-R2", key, st.Pos(), "under the write lock")
				} else {
					c.Bad("C17-R2", key, st.Pos(), "the active set is replaced without its write lock")
				}
			default:
				c.Bad("C17-R2", key, st.Pos(), "the active-upstream set is replaced outside the health check: main upstreams can leave rotation without a failed probe")
			}
		})
	}
	if hc := c.Fn(fw + "(*Handler).healthcheck"); hc == nil {
		c.Und("C17-R2", fw+"(*Handler).healthcheck", token.NoPos, "anchor not found")
	} else {
		for _, s := range c.Callers(hc) {
			if s.Call == nil {
				continue
			}
			fn := s.Call.Parent()
			key := an.FnKey(fn) + " -> healthcheck"
			ok := false
			for _, e := range an.DominatingConds(s.Call.Block()) {
				b, isBin := e.If.Cond.(*ssa.BinOp)
				if !isBin {
					continue
				}
				k, isConst := an.ConstInt(b.Y)
				call, isCall := b.X.(*ssa.Call)
				if !isConst || k != 0 || !isCall || an.CalleeName(call) != "builtin.len" {
					continue
				}
				if ap, okp := an.AccessPath(call.Call.Args[0]); !okp || ap != "p0.fallbacks" {
					continue
				}
				// len == 0 false edge, or len != 0 / len > 0 true edge
				if (b.Op == token.EQL && !e.Branch) || ((b.Op == token.NEQ || b.Op == token.GTR) && e.Branch) {
					ok = true
				}
			}
			c.Check(ok, "C17-R2", key, s.Call.Pos(), "health checks run only when fallbacks are configured",
				"health checks can take main upstreams out of rotation although no fallback is configured")
		}
		// each probe gets the handler's own status record
		for _, call := range an.CallsTo(hc, "(*dnsserver/forward.Handler).healthcheckUpstream") {
			arg := call.Common().Args[2]
			key := "healthcheck probe status argument"
			ok := false
			switch x := arg.(type) {
			case *ssa.UnOp: // load of an element of h.upstreams ([]*upstreamStatus)
				if ia, isIA := x.X.(*ssa.IndexAddr); isIA {
					if ap, okp := an.AccessPath(ia.X); okp && ap == "p0.upstreams" {
						ok = true
					}
				}
			case *ssa.IndexAddr: // address of an element of h.upstreams ([]upstreamStatus)
				if ap, okp := an.AccessPath(x.X); okp && ap == "p0.upstreams" {
					ok = true
				}
			}
			c.Check(ok, "C17-R2", key, call.Pos(), "the probe updates the handler's own status record",
				"the probe is given a copy of the status record: the failure time is lost and a failed upstream is never in backoff")
		}
	}

	// ---- R3
	decide(c, "C17-R3", fw+"(*Handler).healthcheckUpstream", an.DecideCfg{
		Dom: an.Domain{"(age < p0.hcBackoff)": an.Bools, "probeerr": an.Bools},
		OnCall: func(it *an.Interp, name string, args []an.AV) (an.AV, bool) {
			switch {
			case name == "time.Since":
				if args[0].String() != "p2.lastFailedHealthcheck" {
					return an.Sym("age of another timestamp"), true
				}
				return an.Sym("age"), true
			case strings.HasSuffix(name, "forward.checkUpstream"):
				if len(args) == 3 && args[1].String() == "p2.upstream" {
					if it.Feature("probeerr").IsTrue() {
						return an.NonNil("probeErr"), true
					}
					return an.Nil(), true
				}
				return an.Sym("probe of another upstream"), true
			case name == "time.Now":
				return an.Sym("now"), true
			case strings.HasSuffix(name, "errors.Annotate"):
				return args[0], true
			}
			return an.AV{}, false
		},
		Args: nil,
		Expect: func(f an.Features, o an.AOutcome) string {
			st := o.Stores()
			probed := o.HasCall("dnsserver/forward.checkUpstream")
			if f.B("(age < p0.hcBackoff)") {
				if !probed && len(st) == 0 && o.RetString() == "true, nil" {
					return ""
				}
				return "(true, nil) without a probe or state change while in backoff"
			}
			if !probed {
				return "a probe outside the backoff period"
			}
			if f.B("probeerr") {
				if len(st) == 1 && st[0] == "p2.lastFailedHealthcheck=now" && o.Ret[0].IsFalse() && o.Ret[1].Kind != an.KNil {
					return ""
				}
				return "the failure time stamped into the status record and an error returned; got " + fmt.Sprint(st)
			}
			if len(st) == 1 && strings.HasPrefix(st[0], "p2.lastFailedHealthcheck=zero") && o.RetString() == "false, nil" {
				return ""
			}
			return "the failure time cleared after a successful probe; got " + fmt.Sprint(st) + " ret " + o.RetString()
		},
	})
	// the backoff comparison: Since(lastFailed) < hcBackoff
	// (the feature "inbackoff" is bound to exactly this comparison)
	// handled by mapping below

	// ---- R3b: what counts as a healthy probe, and which upstreams become active
	rcSuccess, _ := c.ConstInt("github.com/miekg/dns", "RcodeSuccess")
	decide(c, "C17-R3", fw+"checkUpstream", an.DecideCfg{
		Dom: an.Domain{"exerr": an.Bools, "resp": an.NilOrNot, "resp.MsgHdr.Rcode": an.Ints(rcSuccess, 2, 3, 5)},
		OnCall: func(it *an.Interp, name string, args []an.AV) (an.AV, bool) {
			switch {
			case name == "p1.Exchange":
				e := an.Nil()
				if it.Feature("exerr").IsTrue() {
					e = an.NonNil("exErr")
				}
				r := it.Feature("resp")
				if r.Kind == an.KNonNil {
					r.Key = "resp"
				}
				return an.AV{Kind: an.KTuple, Tup: []an.AV{r, an.Sym("nw"), e}}, true
			case name == "fmt.Errorf":
				return an.NonNil("wrapped"), true
			}
			return an.AV{}, false
		},
		MaxFree: 2,
		Expect: func(f an.Features, o an.AOutcome) string {
			healthy := !f.B("exerr") && !f.IsNil("resp") && f.I("resp.MsgHdr.Rcode") == rcSuccess
			if o.Exit == "return" && len(o.Ret) == 1 && (o.Ret[0].Kind == an.KNil) == healthy {
				return ""
			}
			return fmt.Sprintf("healthy=%v (only an error-free NOERROR reply counts as up)", healthy)
		},
	})
	decide(c, "C17-R3", fw+"(*Handler).healthcheck", an.DecideCfg{
		Dom:    an.Domain{"rnd": an.Bools, "len(p0.upstreams)": an.Ints(0, 1, 2), "s0": an.Strs("backoff", "down", "up"), "s1": an.Strs("backoff", "down", "up")},
		Inline: func(f *ssa.Function) bool { return an.FnKey(f) == fw+"(*Handler).healthcheck$1" },
		OnCall: func(it *an.Interp, name string, args []an.AV) (an.AV, bool) {
			switch {
			case name == "strings.Contains":
				return it.Feature("rnd"), true
			case name == "strings.ReplaceAll", strings.HasSuffix(name, "FormatUint"):
				return an.Sym("domain"), true
			case strings.HasSuffix(name, "forward.newProbeReq"):
				return an.NonNil("probe"), true
			case strings.HasSuffix(name, ").healthcheckUpstream"):
				k := "s0"
				if strings.Contains(args[2].String(), "[1]") {
					k = "s1"
				}
				switch it.Feature(k).String() {
				case `"backoff"`:
					return an.AV{Kind: an.KTuple, Tup: []an.AV{an.CBool(true), an.Nil()}}, true
				case `"down"`:
					return an.AV{Kind: an.KTuple, Tup: []an.AV{an.CBool(false), an.NonNil("down:" + k)}}, true
				}
				return an.AV{Kind: an.KTuple, Tup: []an.AV{an.CBool(false), an.Nil()}}, true
			case strings.HasSuffix(name, "errors.Join"):
				return an.NonNil("joined"), true
			case strings.HasSuffix(name, "errors.Annotate"):
				return args[0], true
			}
			return an.AV{}, false
		},
		Expect: func(f an.Features, o an.AOutcome) string {
			var want []string
			n := int(f.I("len(p0.upstreams)"))
			for i := 0; i < n; i++ {
				if f.S(fmt.Sprintf("s%d", i)) == "up" {
					want = append(want, fmt.Sprintf("p0.upstreams[%d].upstream", i))
				}
			}
			got := ""
			for _, e := range o.Effects {
				if e.Kind == "store" && e.Name == "p0.activeUpstreams" {
					got = e.Args[0]
				}
			}
			wantS := "nil"
			if len(want) > 0 {
				wantS = "[" + strings.Join(want, ", ") + "]"
			}
			if got != wantS {
				return "active set " + wantS + " (exactly the upstreams that are neither in backoff nor failed their probe); got " + got
			}
			if o.Exit != "return" || len(o.Ret) != 1 || (o.Ret[0].Kind == an.KNil) != (len(want) > 0) {
				return "an error exactly when no main upstream is up"
			}
			return ""
		},
	})
	// UDP -> TCP fallback
	netTCP, _ := c.ConstStr("dnsserver/forward", "NetworkTCP")
	netUDP, _ := c.ConstStr("dnsserver/forward", "NetworkUDP")
	decide(c, "C17-R4", fw+"(*UpstreamPlain).exchangeUDP", an.DecideCfg{
		Dom: an.Domain{"p0.network": an.Strs(netTCP, netUDP, ""), "exerr": an.Bools, "expected": an.Bools, "resp": an.NilOrNot, "resp.MsgHdr.Truncated": an.Bools},
		OnCall: func(it *an.Interp, name string, args []an.AV) (an.AV, bool) {
			switch {
			case strings.HasSuffix(name, ").exchangeNet"):
				r := it.Feature("resp")
				if r.Kind == an.KNonNil {
					r.Key = "resp"
				}
				if it.Feature("exerr").IsTrue() {
					return an.AV{Kind: an.KTuple, Tup: []an.AV{r, an.NonNil("exErr")}}, true
				}
				return an.AV{Kind: an.KTuple, Tup: []an.AV{r, an.Nil()}}, true
			case strings.HasSuffix(name, "forward.isExpectedConnErr"):
				return it.Feature("expected"), true
			}
			return an.AV{}, false
		},
		Expect: func(f an.Features, o an.AOutcome) string {
			if o.Exit != "return" || len(o.Ret) != 3 {
				return "a (fallback, resp, err) result"
			}
			nw := f.S("p0.network")
			var wantFB bool
			switch {
			case nw == netTCP:
				wantFB = true
			case f.B("exerr"):
				wantFB = !f.B("expected")
			default:
				wantFB = nw != netUDP && !f.IsNil("resp") && f.B("resp.MsgHdr.Truncated")
			}
			if o.Ret[0].String() != fmt.Sprint(wantFB) {
				return fmt.Sprintf("fallback to TCP=%v", wantFB)
			}
			if nw != netTCP && !f.B("exerr") && o.Ret[2].Kind != an.KNil {
				return "no error for a successful UDP exchange"
			}
			return ""
		},
	})

	// the configured main and fallback servers reach the handler as such
	c.Floor("C17-R5", 2)
	checkFieldMap(c, "C17-R5", "cmd.(*upstreamConfig).toInternal", "dnsserver/forward.HandlerConfig", map[string]string{
		"UpstreamsAddresses": ".Servers", "FallbackAddresses": ".Fallback.Servers",
		"HealthcheckBackoffDuration": ".Healthcheck.BackoffDuration.Duration", "HealthcheckDomainTmpl": ".Healthcheck.DomainTmpl"})
	// one retry on a stale pooled connection, on a connection created for it
	decide(c, "C17-R4", fw+"(*UpstreamPlain).exchangeNet", an.DecideCfg{
		Dom: an.Domain{"p3": an.Strs(netTCP, netUDP), "packerr": an.Bools, "geterr": an.Bools, "proc1": an.Strs("ok", "stale", "other"),
			"createerr": an.Bools, "proc2err": an.Bools, "p0.connsPoolTCP": {an.NonNil("tcppool")}, "p0.connsPoolUDP": {an.NonNil("udppool")}},
		OnCall: func(it *an.Interp, name string, args []an.AV) (an.AV, bool) {
			tup := func(v an.AV, errKey string, fail bool) an.AV {
				if fail {
					return an.AV{Kind: an.KTuple, Tup: []an.AV{an.Nil(), an.NonNil(errKey)}}
				}
				return an.AV{Kind: an.KTuple, Tup: []an.AV{v, an.Nil()}}
			}
			switch {
			case strings.HasSuffix(name, ").getBuffer"):
				return an.NonNil("bufptr"), true
			case strings.HasSuffix(name, ").putBuffer"):
				return an.Nil(), true
			case strings.HasSuffix(name, ").packReq"):
				if it.Feature("packerr").IsTrue() {
					return an.AV{Kind: an.KTuple, Tup: []an.AV{an.CInt(0), an.NonNil("packErr")}}, true
				}
				return an.AV{Kind: an.KTuple, Tup: []an.AV{an.Sym("reqlen"), an.Nil()}}, true
			case strings.HasSuffix(name, "pool.Pool).Get"):
				return tup(an.NonNil("pooled:"+args[0].String()), "getErr", it.Feature("geterr").IsTrue()), true
			case strings.HasSuffix(name, "pool.Pool).Create"):
				return tup(an.NonNil("fresh:"+args[0].String()), "createErr", it.Feature("createerr").IsTrue()), true
			case strings.HasSuffix(name, ").processConn"):
				conn := args[2].String()
				if strings.Contains(conn, "pooled:") {
					switch avStr(it.Feature("proc1")) {
					case "ok":
						return an.AV{Kind: an.KTuple, Tup: []an.AV{an.NonNil("resp1"), an.Nil()}}, true
					case "stale":
						return an.AV{Kind: an.KTuple, Tup: []an.AV{an.Nil(), an.NonNil("err:stale")}}, true
					}
					return an.AV{Kind: an.KTuple, Tup: []an.AV{an.Nil(), an.NonNil("err:other")}}, true
				}
				return tup(an.NonNil("resp2"), "err2", it.Feature("proc2err").IsTrue()), true
			case strings.HasSuffix(name, "forward.isExpectedConnErr"):
				return an.CBool(args[0].Kind == an.KNonNil && args[0].Key == "err:stale"), true
			case name == "fmt.Errorf":
				return an.NonNil("wrapped"), true
			}
			return an.AV{}, false
		},
		Expect: func(f an.Features, o an.AOutcome) string {
			if o.Exit != "return" || len(o.Ret) != 2 {
				return "a (resp, err) result"
			}
			wantPool := "nonnil:udppool"
			if f.S("p3") == netTCP {
				wantPool = "nonnil:tcppool"
			}
			var procs []string
			gets, creates := 0, 0
			for _, e := range o.Effects {
				if e.Kind != "call" {
					continue
				}
				switch {
				case strings.HasSuffix(e.Name, "pool.Pool).Get"):
					gets++
					if e.Args[0] != wantPool {
						return "the connection pool of the requested network (" + wantPool + "); got " + e.Args[0]
					}
				case strings.HasSuffix(e.Name, "pool.Pool).Create"):
					creates++
					if e.Args[0] != wantPool {
						return "the connection pool of the requested network (" + wantPool + "); got " + e.Args[0]
					}
				case strings.HasSuffix(e.Name, ").processConn"):
					procs = append(procs, e.Args[2])
				}
			}
			switch {
			case f.B("packerr"):
				if gets+creates+len(procs) == 0 && o.Ret[1].Kind != an.KNil {
					return ""
				}
				return "an error and no connection when the request cannot be packed"
			case f.B("geterr"):
				if len(procs) == 0 && o.Ret[1].Kind != an.KNil {
					return ""
				}
				return "an error when no connection can be had"
			case f.S("proc1") == "ok":
				if len(procs) == 1 && creates == 0 && o.RetString() == "nonnil:resp1, nil" {
					return ""
				}
				return "the first exchange's reply, without a retry"
			case f.S("proc1") == "other":
				if len(procs) == 1 && creates == 0 && o.Ret[1].Kind != an.KNil {
					return ""
				}
				return "the first exchange's error, without a retry, for errors that do not indicate a stale pooled connection"
			}
			// stale pooled connection
			if gets != 1 || creates != 1 {
				return fmt.Sprintf("exactly one retry on a connection created for it (a second pooled connection may be just as stale); got %d Get and %d Create calls", gets, creates)
			}
			if f.B("createerr") {
				if len(procs) == 1 && o.Ret[1].Kind != an.KNil {
					return ""
				}
				return "an error when the fresh connection cannot be created"
			}
			if len(procs) != 2 || !strings.Contains(procs[1], "fresh:") {
				return "the retry to use the freshly created connection; got " + strings.Join(procs, ", ")
			}
			if f.B("proc2err") != (o.Ret[1].Kind != an.KNil) || (!f.B("proc2err") && o.Ret[0].String() != "nonnil:resp2") {
				return "the retry's result returned"
			}
			return ""
		},
	})

	// the handler's exchange delegates to the chosen upstream with this request
	decide(c, "C17-R1", fw+"(*Handler).exchange", an.DecideCfg{
		Dom: an.Domain{},
		OnCall: func(it *an.Interp, name string, args []an.AV) (an.AV, bool) {
			if name == "p2.Exchange" {
				return an.AV{Kind: an.KTuple, Tup: []an.AV{an.Sym("resp"), an.Sym("nw"), an.Sym("err")}}, true
			}
			if name == "time.Now" {
				return an.Sym("now"), true
			}
			return an.AV{}, false
		},
		Expect: func(f an.Features, o an.AOutcome) string {
			n := 0
			for _, e := range o.Effects {
				if e.Kind == "call" && e.Name == "p2.Exchange" {
					n++
					if strings.Join(e.Args, ",") != "p1,p3" {
						return "the exchange made with this request's context and message; got " + strings.Join(e.Args, ",")
					}
				}
			}
			if n != 1 || o.RetString() != "resp, err" {
				return "exactly one exchange on the given upstream, its reply and error returned unchanged; got " + o.RetString()
			}
			return ""
		},
	})
	// the main upstream is picked from the active set only, under the read lock
	decide(c, "C17-R1", fw+"(*Handler).pickActiveUpstream", an.DecideCfg{
		Dom: an.Domain{"len(p0.activeUpstreams)": an.Ints(0, 1, 3)},
		OnCall: func(it *an.Interp, name string, args []an.AV) (an.AV, bool) {
			if strings.HasSuffix(name, ".Intn") {
				if len(args) > 0 && args[len(args)-1].String() != "len(p0.activeUpstreams)" && avInt(args[len(args)-1]) != avInt(it.Feature("len(p0.activeUpstreams)")) {
					return an.Sym("index drawn from another range: " + args[len(args)-1].String()), true
				}
				return an.Sym("i"), true
			}
			return an.AV{}, false
		},
		Expect: func(f an.Features, o an.AOutcome) string {
			lock, unlock := o.CallIndex("(*sync.RWMutex).RLock"), -1
			for i, e := range o.Effects {
				if (e.Kind == "defer" || e.Kind == "call") && e.Name == "(*sync.RWMutex).RUnlock" {
					unlock = i
				}
			}
			if lock != 0 || unlock < 0 {
				return "the active set read under activeUpstreamsMu (RLock first, RUnlock deferred)"
			}
			if f.I("len(p0.activeUpstreams)") == 0 {
				if o.RetString() == "nil" {
					return ""
				}
				return "nil when no main upstream is active (the caller then uses the fallbacks)"
			}
			if o.RetString() == "p0.activeUpstreams[i]" {
				return ""
			}
			return "an element of the active set, chosen by an index below its length; got " + o.RetString()
		},
	})
	// UDP first; TCP only when the UDP exchange asks for it
	decide(c, "C17-R4", fw+"(*UpstreamPlain).Exchange", an.DecideCfg{
		Dom:    an.Domain{"(0 < p0.timeout)": an.Bools, "fb": an.Bools},
		Inline: func(f *ssa.Function) bool { return strings.HasPrefix(an.FnKey(f), fw+"(*UpstreamPlain).Exchange$") },
		OnCall: func(it *an.Interp, name string, args []an.AV) (an.AV, bool) {
			switch {
			case strings.HasSuffix(name, ").exchangeUDP"):
				return an.AV{Kind: an.KTuple, Tup: []an.AV{it.Feature("fb"), an.Sym("udpresp"), an.Sym("udperr")}}, true
			case strings.HasSuffix(name, ").exchangeNet"):
				return an.AV{Kind: an.KTuple, Tup: []an.AV{an.Sym("tcpresp(" + args[len(args)-1].String() + ")"), an.Sym("tcperr")}}, true
			case name == "context.WithTimeout":
				return an.AV{Kind: an.KTuple, Tup: []an.AV{an.NonNil("ctx2"), an.NonNil("cancel")}}, true
			case strings.HasSuffix(name, "errors.Annotate"):
				return args[0], true
			}
			return an.AV{}, false
		},
		Expect: func(f an.Features, o an.AOutcome) string {
			if o.Exit != "return" || len(o.Ret) != 3 {
				return "a (resp, network, err) result"
			}
			tcp := false
			for _, e := range o.Effects {
				if e.Kind == "call" && strings.HasSuffix(e.Name, ").exchangeNet") {
					tcp = true
				}
			}
			if tcp != f.B("fb") {
				return fmt.Sprintf("a TCP exchange exactly when the UDP exchange asks for the fallback (%v)", f.B("fb"))
			}
			// the per-upstream timeout bounds every exchange, whatever deadline the caller's context has:
			// the fallback is tried with what is left of the caller's deadline
			wantCtx := "p1"
			if f.B("(0 < p0.timeout)") {
				wantCtx = "nonnil:ctx2"
				ok := false
				for _, e := range o.Effects {
					if e.Kind == "call" && e.Name == "context.WithTimeout" && strings.Join(e.Args, ",") == "p1,p0.timeout" {
						ok = true
					}
				}
				if !ok {
					return "the exchange bounded by the upstream's own timeout (context.WithTimeout(ctx, u.timeout)) whenever one is configured"
				}
			}
			for _, e := range o.Effects {
				if e.Kind == "call" && (strings.HasSuffix(e.Name, ").exchangeUDP") || strings.HasSuffix(e.Name, ").exchangeNet")) && e.Args[1] != wantCtx {
					return "the exchange made with the bounded context (" + wantCtx + "); got " + e.Args[1]
				}
			}
			want := "udpresp, " + fmt.Sprintf("%q", netUDP) + ", udperr"
			if f.B("fb") {
				want = "tcpresp(" + fmt.Sprintf("%q", netTCP) + "), " + fmt.Sprintf("%q", netTCP) + ", tcperr"
			}
			if o.RetString() != want {
				return want + "; got " + o.RetString()
			}
			return ""
		},
	})
	// one connection, one request, returned to the pool only after a valid reply
	decide(c, "C17-R4", fw+"(*UpstreamPlain).processConn", an.DecideCfg{
		Dom:    an.Domain{"p1.Deadline()#1": an.Bools, "p4": an.Strs(netTCP, netUDP), "dlerr": an.Bools, "writeerr": an.Bools, "readerr": an.Bools, "puterr": an.Bools},
		Inline: func(f *ssa.Function) bool { return strings.HasPrefix(an.FnKey(f), fw+"(*UpstreamPlain).processConn$") },
		OnCall: func(it *an.Interp, name string, args []an.AV) (an.AV, bool) {
			errOr := func(k, e string) an.AV {
				if it.Feature(k).IsTrue() {
					return an.NonNil(e)
				}
				return an.Nil()
			}
			switch {
			case name == "p1.Deadline":
				return an.AV{Kind: an.KTuple, Tup: []an.AV{an.Sym("ctxdeadline"), it.Feature("p1.Deadline()#1")}}, true
			case name == "time.Now":
				return an.Sym("now"), true
			case name == "(time.Time).Add":
				return an.Sym("now+udptimeout"), true
			case strings.HasSuffix(name, "pool.Conn).SetDeadline"), strings.HasSuffix(name, ".SetDeadline"):
				return errOr("dlerr", "dlErr"), true
			case strings.HasSuffix(name, "pool.Conn).Write"), strings.HasSuffix(name, ".Write"):
				return an.AV{Kind: an.KTuple, Tup: []an.AV{an.Sym("n"), errOr("writeerr", "writeErr")}}, true
			case strings.HasSuffix(name, ").readValidMsg"):
				if it.Feature("readerr").IsTrue() {
					return an.AV{Kind: an.KTuple, Tup: []an.AV{an.Nil(), an.NonNil("readErr")}}, true
				}
				return an.AV{Kind: an.KTuple, Tup: []an.AV{an.NonNil("resp"), an.Nil()}}, true
			case strings.HasSuffix(name, "pool.Pool).Put"):
				return errOr("puterr", "putErr"), true
			case strings.HasSuffix(name, "pool.Conn).Close"), strings.HasSuffix(name, ".Close"):
				return an.Nil(), true
			case strings.HasSuffix(name, "errors.WithDeferred"):
				if args[0].Kind != an.KNil {
					return args[0], true
				}
				return args[1], true
			case name == "fmt.Errorf":
				return an.NonNil("wrapped"), true
			}
			return an.AV{}, false
		},
		Expect: func(f an.Features, o an.AOutcome) string {
			if o.Exit != "return" || len(o.Ret) != 2 {
				return "a (resp, err) result"
			}
			hasDL := f.B("p1.Deadline()#1") || f.S("p4") == netUDP
			fail := (hasDL && f.B("dlerr")) || f.B("writeerr") || f.B("readerr")
			var puts, closes, writes, reads, dls int
			for _, e := range o.Effects {
				if e.Kind != "call" {
					continue
				}
				switch {
				case strings.HasSuffix(e.Name, "pool.Pool).Put"):
					puts++
					if strings.Join(e.Args, ",") != "p3,p2" {
						return "this connection returned to the pool it came from; got " + strings.Join(e.Args, ",")
					}
				case strings.HasSuffix(e.Name, ".Close"):
					closes++
				case strings.HasSuffix(e.Name, ".Write"):
					writes++
				case strings.HasSuffix(e.Name, ").readValidMsg"):
					reads++
					if e.Args[1] != "p5" {
						return "the reply validated against this request; got " + e.Args[1]
					}
				case strings.HasSuffix(e.Name, ".SetDeadline"):
					dls++
				}
			}
			if hasDL != (dls == 1) {
				return fmt.Sprintf("a deadline on the connection exactly when the context has one or the network is UDP (%v)", hasDL)
			}
			if fail {
				if puts != 0 || closes != 1 || o.Ret[1].Kind == an.KNil {
					return fmt.Sprintf("a failed exchange closes the connection instead of pooling it and returns the error (puts=%d closes=%d)", puts, closes)
				}
				return ""
			}
			if puts != 1 || closes != 0 || writes != 1 || reads != 1 {
				return fmt.Sprintf("one write, one validated read, and the connection pooled exactly once after success (writes=%d reads=%d puts=%d closes=%d)", writes, reads, puts, closes)
			}
			if f.B("puterr") != (o.Ret[1].Kind != an.KNil) || o.Ret[0].String() != "nonnil:resp" {
				return "the validated reply returned"
			}
			return ""
		},
	})

	// ---- R4
	decide(c, "C17-R4", fw+"(*UpstreamPlain).readValidMsg", an.DecideCfg{
		Dom: an.Domain{"readerr": an.Bools, "valid": an.Bools},
		OnCall: func(it *an.Interp, name string, args []an.AV) (an.AV, bool) {
			switch {
			case strings.HasSuffix(name, ").readMsg"):
				if it.Feature("readerr").IsTrue() {
					return an.AV{Kind: an.KTuple, Tup: []an.AV{an.Nil(), an.NonNil("readErr")}}, true
				}
				return an.AV{Kind: an.KTuple, Tup: []an.AV{an.NonNil("resp"), an.Nil()}}, true
			case strings.HasSuffix(name, "forward.validatePlainResponse"):
				if len(args) == 2 && args[0].String() == "p1" && args[1].String() == "nonnil:resp" {
					if it.Feature("valid").IsTrue() {
						return an.Nil(), true
					}
					return an.NonNil("invalid"), true
				}
				return an.Sym("validation of other messages"), true
			case name == "fmt.Errorf":
				return an.NonNil("wrapped"), true
			}
			return an.AV{}, false
		},
		Expect: func(f an.Features, o an.AOutcome) string {
			if o.Exit != "return" || len(o.Ret) != 2 {
				return "a (resp, err) result"
			}
			wantOK := !f.B("readerr") && f.B("valid")
			if wantOK != (o.Ret[1].Kind == an.KNil) {
				return fmt.Sprintf("nil error=%v (a reply is accepted only after it was read and validated against the request)", wantOK)
			}
			return ""
		},
	})
	decide(c, "C17-R4", fw+"(*UpstreamPlain).readMsg", an.DecideCfg{
		Dom: an.Domain{"(p1 == \"tcp\")": an.Bools, "lenerr": an.Bools, "readerr": an.Bools, "(n < 17)": an.Bools, "unpackerr": an.Bools},
		OnCall: func(it *an.Interp, name string, args []an.AV) (an.AV, bool) {
			errOr := func(feat, tag string) an.AV {
				if it.Feature(feat).IsTrue() {
					return an.NonNil(tag)
				}
				return an.Nil()
			}
			switch {
			case name == "encoding/binary.Read":
				if len(args) == 3 && args[2].Kind == an.KAddr {
					it.SetMem(args[2].Key, an.Sym("length"))
				}
				return errOr("lenerr", "lenErr"), true
			case name == "io.ReadFull" || name == "io.ReadAtLeast":
				return an.AV{Kind: an.KTuple, Tup: []an.AV{an.Sym("n"), errOr("readerr", "readErr")}}, true
			case name == "p2.Read":
				return an.AV{Kind: an.KTuple, Tup: []an.AV{an.Sym("n"), errOr("readerr", "readErr")}}, true
			case strings.HasSuffix(name, "dns.Msg).Unpack"):
				return errOr("unpackerr", "unpackErr"), true
			case name == "fmt.Errorf":
				return an.NonNil("wrapped"), true
			}
			return an.AV{}, false
		},
		Expect: func(f an.Features, o an.AOutcome) string {
			tcp := f.B("(p1 == \"tcp\")")
			var reads []string
			unpacked := ""
			for _, e := range o.Effects {
				if e.Kind != "call" {
					continue
				}
				switch {
				case e.Name == "encoding/binary.Read", e.Name == "io.ReadFull", e.Name == "io.ReadAtLeast", e.Name == "p2.Read":
					reads = append(reads, e.Name+"("+strings.Join(e.Args, ",")+")")
				case strings.HasSuffix(e.Name, "dns.Msg).Unpack"):
					unpacked = e.Args[len(e.Args)-1]
				}
			}
			got := strings.Join(reads, " ")
			fail := f.B("readerr") || (tcp && f.B("lenerr")) || f.B("(n < 17)") || f.B("unpackerr")
			if tcp {
				// a stream: the two-byte length, then exactly that many bytes, however many reads it takes
				want := "encoding/binary.Read(p2,nonnil:encoding/binary.BigEndian,&local#1)"
				if !f.B("lenerr") {
					want += " io.ReadFull(p2,p3[:length])"
				}
				if got != want {
					return "on a stream the length prefix and then the whole announced message are read (io.ReadFull: a single Read may return a part of it); want " + want + ", got " + got
				}
			} else if got != "p2.Read(p3)" {
				return "one datagram read into the whole buffer; got " + got
			}
			if fail != (len(o.Ret) == 2 && o.Ret[0].Kind == an.KNil && o.Ret[1].Kind != an.KNil) {
				return fmt.Sprintf("failure=%v; got %s", fail, o.RetString())
			}
			if !fail && unpacked != "p3[:n]" {
				return "the bytes actually read are unpacked; got " + unpacked
			}
			return ""
		},
	})
	decide(c, "C17-R4", fw+"validatePlainResponse", an.DecideCfg{
		Dom: an.Domain{"(p0.MsgHdr.Id == p1.MsgHdr.Id)": an.Bools, "len(p1.Question)": an.Ints(0, 1, 2),
			"(p0.Question[0].Qtype == p1.Question[0].Qtype)": an.Bools, "fold": an.Bools},
		OnCall: func(it *an.Interp, name string, args []an.AV) (an.AV, bool) {
			switch {
			case name == "strings.EqualFold":
				a, b := args[0].String(), args[1].String()
				if (a == "p0.Question[0].Name" && b == "p1.Question[0].Name") || (b == "p0.Question[0].Name" && a == "p1.Question[0].Name") {
					return it.Feature("fold"), true
				}
				return an.Sym("other name comparison"), true
			case name == "fmt.Errorf":
				return an.NonNil("wrapped"), true
			}
			return an.AV{}, false
		},
		Expect: func(f an.Features, o an.AOutcome) string {
			ok := f.B("(p0.MsgHdr.Id == p1.MsgHdr.Id)") && f.I("len(p1.Question)") == 1 &&
				f.B("(p0.Question[0].Qtype == p1.Question[0].Qtype)") && f.B("fold")
			if o.Exit == "return" && len(o.Ret) == 1 && (o.Ret[0].Kind == an.KNil) == ok {
				return ""
			}
			return fmt.Sprintf("accepted=%v (ID, one question, type and case-insensitive name must match)", ok)
		},
	})
}

// c17Pool checks the upstream connection pool: Get hands out a pooled
// connection only after the idle-expiry test said "not expired" (an expired one
// is closed and the next one tried), stamps it with the current time, and
// creates a new connection when the pool is empty; Put either queues the
// connection or closes it (never drops it), and a closed pool closes it.
func c17Pool(c *an.Ctx) {
	c.Floor("C17-R7", 2)
	const get = "dnsserver/pool.(*Pool).Get"
	if fn := c.Fn(get); fn == nil {
		c.Und("C17-R7", get, token.NoPos, "anchor not found")
	} else {
		c.Analysed(get)
		var sel *ssa.Select
		an.Instrs(fn, func(in ssa.Instruction) {
			if s, ok := in.(*ssa.Select); ok {
				sel = s
			}
		})
		bad := ""
		n := 0
		if sel == nil {
			bad = "no receive from the pool channel"
		}
		for _, r := range an.Returns(fn) {
			if len(r.Results) != 2 {
				continue
			}
			ex, ok := r.Results[0].(*ssa.Extract)
			if !ok || sel == nil || ex.Tuple != ssa.Value(sel) {
				continue
			}
			// a pooled connection is returned: the expiry test must have failed on this path
			n++
			fresh, stamped := false, false
			for _, e := range an.DominatingConds(r.Block()) {
				if call, isCall := e.If.Cond.(*ssa.Call); isCall && strings.HasSuffix(an.CalleeName(call), "pool.isExpired") && !e.Branch && call.Call.Args[0] == ssa.Value(ex) {
					if ap, _ := an.AccessPath(call.Call.Args[1]); ap == "p0.IdleTimeout" {
						fresh = true
					}
				}
			}
			for _, in := range r.Block().Instrs {
				if st, isSt := in.(*ssa.Store); isSt {
					if _, f, base, ok := an.FieldOf(st.Addr); ok && f == "lastTimeUsed" && base == ssa.Value(ex) {
						if call, isCall := st.Val.(*ssa.Call); isCall && an.CalleeName(call) == "time.Now" {
							stamped = true
						}
					}
				}
			}
			if !fresh {
				bad = "a pooled connection is handed out without the idle-expiry test against the pool's IdleTimeout"
			} else if !stamped {
				bad = "the connection's last-use time is not renewed when it is handed out"
			}
		}
		if n == 0 && bad == "" {
			bad = "no path returns a pooled connection"
		}
		// the expired branch closes the connection
		closed := false
		for _, call := range an.Calls(fn) {
			if call.Common().IsInvoke() && call.Common().Method.Name() == "Close" {
				for _, e := range an.DominatingConds(call.Block()) {
					if cc, isCall := e.If.Cond.(*ssa.Call); isCall && strings.HasSuffix(an.CalleeName(cc), "pool.isExpired") && e.Branch {
						closed = true
					}
				}
			}
		}
		if bad == "" && !closed {
			bad = "an expired connection is not closed"
		}
		if bad == "" && len(an.CallsTo(fn, "(*github.com/AdguardTeam/AdGuardDNS/internal/dnsserver/pool.Pool).Create")) == 0 {
			created := false
			for _, call := range an.Calls(fn) {
				if strings.HasSuffix(an.CalleeName(call), "pool.Pool).Create") {
					created = true
				}
			}
			if !created {
				bad = "an empty pool does not create a connection"
			}
		}
		c.Check(bad == "", "C17-R7", get+" hands out only fresh connections", fn.Pos(),
			"pooled connections pass the idle-expiry test, are re-stamped, expired ones are closed, an empty pool creates one", bad)
	}
	const put = "dnsserver/pool.(*Pool).Put"
	if fn := c.Fn(put); fn == nil {
		c.Und("C17-R7", put, token.NoPos, "anchor not found")
	} else {
		c.Analysed(put)
		// every path to a return disposes of the connection: queued (select send), closed, or handed to closeConn
		disposes := func(in ssa.Instruction) bool {
			switch x := in.(type) {
			case *ssa.Select:
				for _, st := range x.States {
					if st.Dir == types.SendOnly && st.Send == ssa.Value(fn.Params[1]) {
						return true
					}
				}
			case ssa.CallInstruction:
				n := an.CalleeName(x)
				if strings.HasSuffix(n, "pool.Pool).closeConn") || strings.HasSuffix(n, "pool.Conn).Close") || (x.Common().IsInvoke() && x.Common().Method.Name() == "Close") {
					return true
				}
			}
			return false
		}
		_, leak := an.ReachesExitAvoiding(fn.Blocks[0], 0, disposes, false)
		// after the select, the not-sent case must close
		bad := ""
		if leak {
			bad = "a path returns without queueing or closing the connection"
		}
		an.Instrs(fn, func(in ssa.Instruction) {
			if s, ok := in.(*ssa.Select); ok && !s.Blocking {
				// the default case: index != 0
				for _, call := range an.Calls(fn) {
					if strings.HasSuffix(an.CalleeName(call), "pool.Conn).Close") || (call.Common().IsInvoke() && call.Common().Method.Name() == "Close") {
						return
					}
				}
				bad = "a connection that does not fit into the pool is not closed"
			}
		})
		c.Check(bad == "", "C17-R7", put+" queues or closes the connection", fn.Pos(), "the connection is queued, or closed when the pool is full or closed", bad)
	}
}

// errChainExceptions lists the fmt.Errorf calls that format an error value
// without %w on purpose, confirmed by reading.
var errChainExceptions = map[string]string{
	"debugsvc.runServer":     "the error is only used as a panic message at start-up; nothing classifies it",
	"backendpb.fixGRPCError": "deliberately replaces the gRPC status error by context.DeadlineExceeded (wrapped) and keeps only the text of the original",
}

// c17ErrClassAgreement: package forward has one definition of "the connection
// to the upstream failed" (isExpectedConnErr: a net.Error or io.EOF, the latter
// being what a stream upstream that closes the connection produces).  The retry
// on a fresh connection uses it; the decision to go to a fallback must use the
// same class, otherwise an upstream that closes connections is retried but never
// failed over.  Any other errors.As(err, *net.Error) in the package is a second,
// narrower definition.
func c17ErrClassAgreement(c *an.Ctx) {
	uses := 0
	for _, fn := range c.AllFns {
		if fn.Blocks == nil || c.IsTestFile(fn.Pos()) || !strings.HasPrefix(an.FnKey(fn), "dnsserver/forward.") {
			continue
		}
		k := an.FnKey(fn)
		for _, call := range an.Calls(fn) {
			n := an.CalleeName(call)
			if strings.HasSuffix(n, "forward.isExpectedConnErr") {
				uses++
			}
			if !(strings.HasSuffix(n, "errors.As") && len(call.Common().Args) == 2) || k == "dnsserver/forward.isExpectedConnErr" {
				continue
			}
			target := call.Common().Args[1]
			if mi, ok := target.(*ssa.MakeInterface); ok {
				target = mi.X
			}
			pt, ok := target.Type().Underlying().(*types.Pointer)
			if !ok || an.TypeName(pt.Elem()) != "net.Error" {
				continue
			}
			c.Analysed(k)
			c.Bad("C17-R9", k+" classifies connection failures like the retry does", call.Pos(),
				"errors are classified with errors.As(err, *net.Error) directly instead of isExpectedConnErr: io.EOF from a stream upstream that closes the connection is retried but never failed over to a fallback")
		}
	}
	fn := c.Fn("dnsserver/forward.(*Handler).ServeDNS")
	viaHelper := false
	if fn != nil {
		for _, call := range an.Calls(fn) {
			if strings.HasSuffix(an.CalleeName(call), "forward.isExpectedConnErr") {
				viaHelper = true
			}
		}
	}
	c.Check(viaHelper && uses >= 2, "C17-R9", "dnsserver/forward.(*Handler).ServeDNS decides the fail-over with isExpectedConnErr", token.NoPos,
		"the fail-over decision uses the package's one definition of a connection failure", "the fail-over decision does not use isExpectedConnErr")
}

// c17ConnErrClass holds the table of the package's definition of a failed
// connection and the nil guard of the metrics callback that runs between an
// exchange and the fail-over decision.
func c17ConnErrClass(c *an.Ctx) {
	decide(c, "C17-R10", "dnsserver/forward.isExpectedConnErr", an.DecideCfg{
		Dom: an.Domain{"p0": an.NilOrNot, "isnet": an.Bools, "iseof": an.Bools, "isueof": an.Bools},
		OnCall: func(it *an.Interp, name string, args []an.AV) (an.AV, bool) {
			switch {
			case strings.HasSuffix(name, "errors.As"):
				return it.Feature("isnet"), true
			case strings.HasSuffix(name, "errors.Is"):
				// a connection closed before any byte of the reply (io.EOF) or in the middle of it (io.ErrUnexpectedEOF)
				if len(args) == 2 && strings.Contains(args[1].String(), "ErrUnexpectedEOF") {
					return it.Feature("isueof"), true
				}
				return it.Feature("iseof"), true
			}
			return an.AV{}, false
		},
		Expect: func(f an.Features, o an.AOutcome) string {
			want := !f.IsNil("p0") && (f.B("isnet") || f.B("iseof") || f.B("isueof"))
			if len(o.Ret) != 1 || o.Ret[0].Kind != an.KConst || o.Ret[0].IsTrue() != want {
				return fmt.Sprintf("%v (a non-nil error that is a net.Error, io.EOF or io.ErrUnexpectedEOF: the connection failed or was closed, before or in the middle of the reply); got %s", want, o.RetString())
			}
			return ""
		},
	})
	sharedNilGuardedParam(c, "C17-R10", "dnsserver/prometheus.(*ForwardMetricsListener).OnForwardRequest", 4,
		"Handler.exchange calls the listener after every exchange, also a failed one, whose response is nil: the panic replaces the error on which the fail-over decision is made")
}

// c17BufferPoolsAgree: a buffer taken for one network goes back to the pool of
// that network.  getBuffer and putBuffer are the two halves of one table
// (network -> pool); they must be the same table.  A 4 KiB UDP buffer in the
// TCP pool is handed to the next TCP exchange, whose reply of up to 64 KiB is
// read into it with buf[:length] (a panic inside the exchange, no fail-over).
func c17BufferPoolsAgree(c *an.Ctx, rule string) {
	table := func(fnKey string) (m map[string]string, ok bool) {
		fn := c.Fn(fnKey)
		if fn == nil {
			return nil, false
		}
		c.Analysed(fnKey)
		m = map[string]string{}
		for _, call := range an.Calls(fn) {
			name := an.CalleeName(call)
			if !strings.HasSuffix(name, ".Get") && !strings.HasSuffix(name, ".Put") || !strings.Contains(name, "syncutil.Pool") {
				continue
			}
			pool, okp := an.AccessPath(call.Common().Args[0])
			if !okp {
				continue
			}
			net := "?"
			for _, e := range an.DominatingConds(call.Block()) {
				if b, isB := e.If.Cond.(*ssa.BinOp); isB && b.Op == token.EQL && e.Branch {
					for _, op := range []ssa.Value{b.X, b.Y} {
						if k, isK := an.Unwrap(op).(*ssa.Const); isK && k.Value != nil && k.Value.Kind() == constant.String {
							net = constant.StringVal(k.Value)
						}
					}
				}
			}
			m[net] = strings.TrimPrefix(pool, "p0.")
		}
		return m, true
	}
	const u = "dnsserver/forward.(*UpstreamPlain)."
	get, ok1 := table(u + "getBuffer")
	put, ok2 := table(u + "putBuffer")
	key := "getBuffer and putBuffer of the plain upstream use the same pool for each network"
	if !ok1 || !ok2 || len(get) < 2 {
		c.Und(rule, key, token.NoPos, "anchors not found or no network cases recognised (%v, %v)", get, put)
		return
	}
	var diff []string
	for n, p := range get {
		if put[n] != p {
			diff = append(diff, fmt.Sprintf("%s: taken from %s, returned to %s", n, p, put[n]))
		}
	}
	sort.Strings(diff)
	c.Check(len(diff) == 0 && len(put) == len(get), rule, key, token.NoPos, fmt.Sprintf("%d networks, each with one pool on both sides", len(get)),
		strings.Join(diff, "; ")+": a buffer of one size class enters the pool of the other, and the next exchange on that network reads a longer reply into it")
}

// c17BufferPools: readMsg reads a TCP response into buf[:length] with the
// length the upstream announced (up to 65535): a TCP buffer pool made with a
// smaller size makes every larger answer a slice-bounds panic, i.e. a failed
// exchange that takes the upstream out of rotation.  The pools stored into
// UpstreamPlain.tcpBufs / udpBufs are created with constants of at least
// dns.MaxMsgSize / 4096.
func c17BufferPools(c *an.Ctx, rule string) {
	minSize := map[string]int64{"tcpBufs": 65535, "udpBufs": 4096}
	seen := map[string]bool{}
	stores := append(c.Prog.FieldStores("dnsserver/forward.UpstreamPlain", "tcpBufs"), c.Prog.FieldStores("dnsserver/forward.UpstreamPlain", "udpBufs")...)
	for _, fs := range stores {
		fn := fs.Store.Parent()
		if c.IsTestFile(fn.Pos()) {
			continue
		}
		_, field, _, _ := an.FieldOf(fs.Store.Addr)
		key := an.FnKey(fn) + ": pool " + field + " holds a whole message of its transport"
		seen[field] = true
		c.Analysed(an.FnKey(fn))
		call, ok := fs.Store.Val.(*ssa.Call)
		if !ok || len(call.Call.Args) != 1 {
			c.Und(rule, key, fs.Store.Pos(), "the stored pool is not the result of a one-argument constructor call")
			continue
		}
		k, ok := call.Call.Args[0].(*ssa.Const)
		if !ok {
			c.Und(rule, key, fs.Store.Pos(), "the pool size is not a constant")
			continue
		}
		c.Check(k.Int64() >= minSize[field], rule, key, fs.Store.Pos(), fmt.Sprintf("size %d >= %d", k.Int64(), minSize[field]),
			fmt.Sprintf("the pool is created with size %d, below the %d bytes a response on that transport can have: readMsg slices the buffer to the announced length, so a larger answer panics or is cut, and the upstream is counted as failed", k.Int64(), minSize[field]))
	}
	for f := range minSize {
		if !seen[f] {
			c.Und(rule, "pool "+f, token.NoPos, "no store into UpstreamPlain.%s found", f)
		}
	}
}

// c17ProbeBudgets: Handler.healthcheck probes the main upstreams in a loop.
// When the probes run one after another under the one context of the round, an
// upstream that does not answer uses the whole deadline up and every upstream
// probed after it fails at once, without a packet being sent: healthy main
// upstreams are taken out of rotation.  Each probe call inside the loop is
// either started with a go statement (or inside a function literal that is),
// or gets a context that is made inside the loop.
func c17ProbeBudgets(c *an.Ctx, rule string) {
	k := "dnsserver/forward.(*Handler).healthcheck"
	fn := c.Prog.Fn(k)
	if fn == nil {
		c.Und(rule, k, token.NoPos, "anchor not found")
		return
	}
	c.Analysed(k)
	n := 0
	check := func(f *ssa.Function, concurrent bool) {
		for _, call := range an.Calls(f) {
			if !strings.HasSuffix(an.CalleeName(call), "forward.Handler).healthcheckUpstream") || len(call.Common().Args) < 2 {
				continue
			}
			n++
			_, isGo := call.(*ssa.Go)
			inLoop := an.CanReach(call, call)
			ctxArg := call.Common().Args[1]
			shared := false
			switch x := ctxArg.(type) {
			case *ssa.Parameter:
				shared = true
			case *ssa.FreeVar:
				shared = true
			case *ssa.UnOp:
				// a context kept in a cell that is written outside the loop only
				if al, ok := x.X.(*ssa.Alloc); ok {
					shared = true
					for _, r := range *al.Referrers() {
						if st, ok := r.(*ssa.Store); ok && an.CanReach(st, st) {
							shared = false
						}
					}
				} else if _, ok := x.X.(*ssa.FreeVar); ok {
					shared = true
				}
			}
			bad := !(isGo || concurrent) && inLoop && shared
			c.Check(!bad, rule, fmt.Sprintf("%s: probe %d of the main upstreams has a time budget of its own", k, n), call.Pos(),
				"the probe runs concurrently or under a context made for it",
				"the probes of the loop run one after another under the single context of the round ("+c.Pos(call.Pos())+"): a main upstream that does not answer uses the deadline up, and the healthy upstreams after it are marked down without having been asked")
		}
	}
	check(fn, false)
	// function literals of healthcheck started with go
	for _, call := range an.Calls(fn) {
		if g, ok := call.(*ssa.Go); ok {
			if lit := an.StaticCallee(g); lit != nil && lit.Parent() == fn {
				check(lit, true)
			}
		}
	}
	if n == 0 {
		c.Und(rule, k, fn.Pos(), "no call of healthcheckUpstream found in healthcheck")
	}
}

// c17SchemeIsNetwork: the value cmd.splitUpstreamURL returns as the network on
// its successful return is a phi of the default (NetworkAny, no scheme) and the
// conversion of the parsed URL's Scheme; a function that validates the scheme
// but returns the default for it makes every tcp:// upstream a UDP-first one.
func c17SchemeIsNetwork(c *an.Ctx, rule string) {
	k := "cmd.splitUpstreamURL"
	fn := c.Prog.Fn(k)
	key := k + " returns the scheme's network"
	if fn == nil {
		c.Und(rule, key, token.NoPos, "anchor not found")
		return
	}
	c.Analysed(k)
	fromScheme, successes := false, 0
	var walk func(v ssa.Value, d int)
	walk = func(v ssa.Value, d int) {
		if d > 6 {
			return
		}
		switch x := v.(type) {
		case *ssa.Phi:
			for _, e := range x.Edges {
				walk(e, d+1)
			}
		case *ssa.ChangeType:
			walk(x.X, d+1)
		case *ssa.Convert:
			walk(x.X, d+1)
		case *ssa.UnOp:
			if x.Op == token.MUL {
				if t, f, _, ok := an.FieldOf(x.X); ok && t == "net/url.URL" && f == "Scheme" {
					fromScheme = true
				}
			}
		}
	}
	for _, r := range an.Returns(fn) {
		if len(r.Results) == 3 && an.IsNilConst(r.Results[2]) {
			successes++
			walk(r.Results[0], 0)
		}
	}
	if successes == 0 {
		c.Und(rule, key, fn.Pos(), "no successful return found")
		return
	}
	c.Check(fromScheme, rule, key, fn.Pos(), "the network of the successful return includes the converted URL scheme",
		"no successful return of splitUpstreamURL yields the URL's scheme as the network: an upstream written as tcp://… is treated as one without a scheme (UDP first, TCP only after a truncated answer), and an upstream that answers over TCP only counts as down")
}

// c17ProbeRecursive: newProbeReq builds the message every main upstream is
// probed with.  A recursive resolver refuses a non-recursive query for a name
// it has not cached (the probe name is random), so a probe without the RD bit
// marks every healthy upstream down.  The constructor stores true into
// MsgHdr.RecursionDesired of the message it returns.
func c17ProbeRecursive(c *an.Ctx, rule string) {
	k := "dnsserver/forward.newProbeReq"
	fn := c.Prog.Fn(k)
	key := k + " sets the RD bit"
	if fn == nil {
		c.Und(rule, key, token.NoPos, "anchor not found")
		return
	}
	c.Analysed(k)
	set := false
	an.Instrs(fn, func(in ssa.Instruction) {
		st, ok := in.(*ssa.Store)
		if !ok {
			return
		}
		if _, f, _, ok := an.FieldOf(st.Addr); ok && f == "RecursionDesired" {
			if kc, isK := st.Val.(*ssa.Const); isK && kc.Value != nil && kc.Value.String() == "true" {
				set = true
			}
		}
	})
	c.Check(set, rule, key, fn.Pos(), "RecursionDesired = true",
		"the probe message is built without the RD bit: recursive upstreams answer REFUSED to a non-recursive query for the random probe name, every probe fails, and traffic never returns from the fallbacks")
}

// c17AsTargetGuarded: errors.As fills its target only when it returns true; an
// interface target stays nil otherwise, and a method call on it panics.  In the
// forwarding code and its metrics listener every invoke on a value loaded from a
// cell that was handed to errors.As is dominated by the true edge of that call's
// result.  Returns the number of such invokes examined.
func c17AsTargetGuarded(c *an.Ctx, rule string) (examined int) {
	for _, fn := range c.AllFns {
		k := an.FnKey(fn)
		if fn.Blocks == nil || c.IsTestFile(fn.Pos()) || !(strings.HasPrefix(k, "dnsserver/prometheus.") || strings.HasPrefix(k, "dnsserver/forward.") || strings.HasPrefix(k, "dnsserver.")) {
			continue
		}
		inFn := 0
		for _, call := range an.Calls(fn) {
			as, ok := call.(*ssa.Call)
			if !ok || !strings.HasSuffix(an.CalleeName(call), "errors.As") || len(as.Call.Args) != 2 {
				continue
			}
			target := as.Call.Args[1]
			if mi, isMI := target.(*ssa.MakeInterface); isMI {
				target = mi.X
			}
			cell, isCell := target.(*ssa.Alloc)
			if !isCell {
				continue
			}
			for _, r := range *cell.Referrers() {
				ld, isLd := r.(*ssa.UnOp)
				if !isLd || ld.Op != token.MUL {
					continue
				}
				for _, r2 := range *ld.Referrers() {
					inv, isCall := r2.(ssa.CallInstruction)
					if !isCall || !inv.Common().IsInvoke() || inv.Common().Value != ssa.Value(ld) {
						continue
					}
					examined++
					inFn++
					c.Analysed(k)
					guarded := false
					for _, e := range an.DominatingConds(inv.Block()) {
						if e.If.Cond == ssa.Value(as) && e.Branch {
							guarded = true
						}
					}
					c.Check(guarded, rule, fmt.Sprintf("%s: method call %d on an errors.As target is made only after a match", k, inFn), inv.Pos(),
						"the true edge of errors.As dominates the call",
						"the method "+inv.Common().Method.Name()+" is called at "+c.Pos(inv.Pos())+" on the target of errors.As without the call having matched: for an error that is not of that type the target is nil and the call panics")
				}
			}
		}
	}
	return examined
}
