package rules

import (
	"fmt"
	"go/token"
	"strings"

	"adgverif/an"

	"golang.org/x/tools/go/ssa"
)

func init() {
	register(&Property{ID: "C18", Technique: "decision-tree extraction of the counter transitions and of the accept/close/pipeline paths (abstract interpretation over representative values), lock-held dataflow for the shared counter, must-pass-through (Broadcast) path rule",
		Run: runC18, Explain: an.Explanation{
			Text: "R1: counter.increment and counter.decrement equal the reference transitions (increment: refused when not " +
				"accepting, else current+1 and accepting iff current+1 < stop; decrement: current-1 and accepting iff it was " +
				"accepting or current-1 <= resume), over representative orderings of current/stop/resume. R2: the counter's " +
				"fields and limitListener.isClosed are read and written only while counterCond.L is held (helpers checked at " +
				"their call sites). R3: every critical section that can make a waiter's predicate true (counter.decrement, " +
				"isClosed = true) broadcasts on the shared condition variable before it ends, and nothing signals a single " +
				"waiter. R4: limitListener.increment takes a slot only when the listener is open (closed edge never calls " +
				"counter.increment; an open listener returns after exactly one successful increment, otherwise waits); " +
				"Accept releases the slot exactly once when the underlying Accept fails and otherwise hands the listener's " +
				"own decrement to the returned connection; limitConn.Close decrements exactly once, guarded by the " +
				"compare-and-swap. R5: acceptTCPMsg submits a query only after acquiring the pipeline semaphore, the submitted " +
				"worker releases it exactly once (deferred), and serveTCPConn sizes the semaphore from MaxPipelineCount when " +
				"pipeline limiting is enabled and passes that semaphore on.",
			NotCovered: "the bound (current <= stop) and liveness over all schedules: they follow from the extracted transition " +
				"table and the lock/wake-up discipline by an invariant argument that the checker does not mechanise.",
			Rules: map[string]string{"C18-R21": "every stream listener of module dnsserver is created through the server's ListenConfig (the connection limiter wraps it there): no server calls net.Listen, net.ListenTCP or tls.Listen itself; R22: a server constructor replaces ListenConfig only when the caller gave none", "C18-R20": "marking a stream-capable server stopped closes its listeners in the same step (ServerDNS.shutdown, ServerDNSCrypt.shutdown): every successful return of shutdown is dominated by closeListeners, so a pending accept gives its limiter slot back whatever happens to the rest of Shutdown", "C18-R19": "the TLS listener wrapper passes on every connection that the wrapped (limiter) listener gave it: after a successful inner Accept every exit of tlsListener.Accept has wrapped the connection for the caller or closed it (a dropped connection keeps its limiter slot for ever)", "C18-R18": "every key of the TCP pipeline limit and the connection limit (ratelimit.tcp, ratelimit.connection_limit) of the documented sample configuration config.dist.yaml is named by a yaml tag of the configuration structure: a setting that the decoder ignores leaves its limiter switched off", "C18-R17": "closing a bind-to-device channel listener (or packet connection) closes its channel, which is what makes a blocked Accept (ReadFrom) return: the first Close closes the channel and marks the listener closed, a second one only reports net.ErrClosed", "C18-R16": "while the limiter's shared mutex (counterCond.L) is held, only the counter, the condition variable, the gauges and the logger are called: no method of the wrapped listener or connection, which may block on a lock of its own while every listener of the limiter waits", "C18-R15": "tlsConn.Close closes the wrapped (limiter) connection on every path", "C18-R14": "ServerDNS.Start and ServerTLS.Start count their TCP accept loop in the wait group that Shutdown waits for before it releases the worker pool", "C18-R12": "the worker pool of the plain-DNS and DoT servers has no capacity limit, so Submit cannot fail on the accept path and strand a connection with its limiter slot (shared with C01-R9)", "C18-R13": "dnssvc.newListeners passes the configured connection limiter to newListenConfig as it is, for every protocol", "C18-R11": "an accepted connection is handed to its worker or closed on every path; closeListeners closes both listeners unconditionally", "C18-RC": "class rules (error chains, shadowed results, character classes, crossed arguments, pool constructors, array pools, loop completeness, loop-carried buffers, replacing setters, complete clones, Grow arithmetic, pooled-buffer escape, sorted searches, fresh decode targets, per-iteration objects, whole-message copies, codec guards) over the packages this property rests on", "C18-R10": "Shutdown waits for the connections before releasing the worker pool", "C18-R1": "counter transition tables", "C18-R2": "counter state only under counterCond.L",
				"C18-R3": "Broadcast after every state change that can release waiters; no Signal",
				"C18-R4": "slot taken/released exactly once on every accept/close path", "C18-R8": "Close marks the listener closed and wakes all waiting accepts on every path, also when the underlying listener's Close fails",
				"C18-R7": "limiter wiring: New builds one shared counter with the configured thresholds; Limit hands every listener that shared counter and condition variable; the limiting ListenConfig wraps every stream listener; dnssvc wraps the listen config whenever a limiter is configured; the YAML thresholds reach New unchanged",
				"C18-R5": "pipeline semaphore acquire-before-submit, release once, sized from config"},
		}})
}

func runC18(c *an.Ctx) {
	// ---- R21: listeners come from the ListenConfig; R22: constructors keep the caller's ListenConfig
	c18ListenersThroughConfig(c, "C18-R21")
	if n := c18ListenConfigKept(c, "C18-R22"); n < 3 {
		c.Und("C18-R22", "default ListenConfig in the server constructors", token.NoPos, "only %d stores into ListenConfig found in the constructors of dnsserver (expected one per server type)", n)
	}
	// ---- R20: shutdown closes the listeners at once
	c.Floor("C18-R20", 2)
	c18ShutdownClosesListeners(c, "C18-R20")
	// ---- R19: the TLS wrapper never drops a connection it was given
	c.Floor("C18-R19", 1)
	c18WrapperKeepsAccepted(c, "C18-R19")
	// ---- R18: the documented settings are read by the configuration structure
	if n := sharedDistConfigKeys(c, "C18-R18", "ratelimit.tcp", "ratelimit.connection_limit"); n < 6 {
		c.Und("C18-R18", "keys of config.dist.yaml", token.NoPos, "only %d key paths examined", n)
	}
	// ---- R17: Close of the channel listeners releases whoever waits in Accept / ReadFrom (Linux-only code)
	if c.Config.GOOS == "" || c.Config.GOOS == "linux" {
		c.Floor("C18-R17", 2)
		for _, x := range [][2]string{{"bindtodevice.(*chanListener).Close", "p0.conns"}, {"bindtodevice.(*chanPacketConn).Close", "p0.sessions"}} {
			ch := x[1]
			decide(c, "C18-R17", x[0], an.DecideCfg{
				Dom: an.Domain{"p0.isClosed": an.Bools},
				OnCall: func(it *an.Interp, name string, args []an.AV) (an.AV, bool) {
					if name == "bindtodevice.wrapConnError" {
						return an.NonNil("closedErr"), true
					}
					return an.AV{}, false
				},
				Expect: func(f an.Features, o an.AOutcome) string {
					closed := false
					for _, e := range o.Effects {
						if e.Kind == "call" && e.Name == "builtin.close" && len(e.Args) == 1 && e.Args[0] == ch {
							closed = true
						}
					}
					marked := false
					for _, st := range o.Stores() {
						if st == "p0.isClosed=true" {
							marked = true
						}
					}
					if len(o.Ret) != 1 {
						return "an error result"
					}
					if f.B("p0.isClosed") {
						if !closed && o.Ret[0].Kind != an.KNil {
							return ""
						}
						return "an error and no second close of the channel for a closed listener"
					}
					if closed && marked && o.Ret[0].Kind == an.KNil {
						return ""
					}
					return fmt.Sprintf("the channel %s closed (closed=%v), the listener marked closed (%v) and nil returned: a goroutine blocked in Accept / ReadFrom is released only by the closed channel", ch, closed, marked)
				},
			})
		}
	}
	// ---- R16: nothing foreign is called while the limiter's shared mutex is held
	if n := c18SharedMutexCallFree(c, "C18-R16"); n < 6 {
		c.Und("C18-R16", "calls under the limiter's shared mutex", token.NoPos, "only %d calls under counterCond.L found in package connlimiter (6 confirmed by reading: two counter updates, Wait, two Broadcasts, the gauges)", n)
	}
	// ---- R15: the TLS wrapper's Close always reaches the connection it wraps
	c.Floor("C18-R15", 1)
	c18WrapperCloses(c, "C18-R15")
	// ---- R14: the accept loops of the stream servers are part of what Shutdown waits for
	if n := c18AcceptLoopCounted(c, "C18-R14"); n < 2 {
		c.Und("C18-R14", "accept loops of the stream servers", token.NoPos, "only %d `go s.startServeTCP` statements found in the Start methods (expected ServerDNS and ServerTLS)", n)
	}
	// ---- R12: the servers' worker pool is unbounded, so that a Submit on the accept path cannot fail under load and
	// leave an accepted connection (and its limiter slot) open for ever (shared with C01-R9); R13: every listener gets
	// the configured limiter as it is
	c.Floor("C18-R12", 1)
	c.Borrow("C18-R12", runC01, func(o an.Obligation) bool { return o.Rule == "C01-R9" && strings.Contains(o.Key, "newPoolNonblocking") })
	if n := c18LimiterVerbatim(c, "C18-R13"); n < 1 {
		c.Und("C18-R13", "limiter arguments of newListenConfig", token.NoPos, "no call of dnssvc.newListenConfig with a limiter parameter found")
	}
	c.Floor("C18-R11", 2)
	c18AcceptedConn(c)
	classSweep(c, "C18")
	c.Floor("C18-R10", 1)
	c18ShutdownOrder(c)
	dnssvcWiring(c, "C18-R9", func(dst, src string) bool {
		n := normName(dst) + " " + normName(src)
		return strings.Contains(n, "pipeline") || strings.Contains(n, "idletimeout") || strings.Contains(n, "listenconfig")
	}, 4)
	// ---- C18-R9: builder wiring of the components this property rests on
	c.Floor("C18-R9", 2)
	builderWiring(c, "C18-R9", map[string][]string{
		"initDNS|dnssvc.Config": {"ConnLimiter", "ServerGroups"},
	})
	c18Close(c)
	checkFieldMap(c, "C18-R6", "cmd.(servers).toInternal", "agd.TCPConfig", map[string]string{
		"IdleTimeout": ".TCPIdleTimeout.Duration", "MaxPipelineCount": ".TCP.MaxPipelineCount", "MaxPipelineEnabled": ".TCP.Enabled"})
	c.Floor("C18-R1", 2)
	c.Floor("C18-R2", 6)
	c.Floor("C18-R3", 2)
	c.Floor("C18-R4", 3)
	c.Floor("C18-R5", 5)
	c.Floor("C18-R6", 4)
	c18Config(c)
	c18Wiring(c)

	// ---- R1
	num := func(a an.AV) int64 { return an.Env{"x": a}.I("x") }
	decide(c, "C18-R1", "connlimiter.(*counter).increment", an.DecideCfg{
		Dom: an.Domain{"p0.isAccepting": an.Bools, "p0.current": an.Ints(0, 1, 2, 5), "p0.stop": an.Ints(1, 2, 3, 6)},
		Expect: func(f an.Features, o an.AOutcome) string {
			if !f.B("p0.isAccepting") {
				if o.RetString() == "false" && len(o.Stores()) == 0 {
					return ""
				}
				return "refusal without any state change when not accepting"
			}
			cur, stop := f.I("p0.current"), f.I("p0.stop")
			if o.RetString() == "true" && num(o.Mem["p0.current"]) == cur+1 && o.Mem["p0.isAccepting"].String() == fmt.Sprint(cur+1 < stop) {
				return ""
			}
			return fmt.Sprintf("true, current=%d, isAccepting=%v", cur+1, cur+1 < stop)
		},
	})
	decide(c, "C18-R1", "connlimiter.(*counter).decrement", an.DecideCfg{
		Dom: an.Domain{"p0.isAccepting": an.Bools, "p0.current": an.Ints(1, 2, 3, 6), "p0.resume": an.Ints(0, 1, 2, 5)},
		Expect: func(f an.Features, o an.AOutcome) string {
			cur, res := f.I("p0.current"), f.I("p0.resume")
			want := f.B("p0.isAccepting") || cur-1 <= res
			got, stored := o.Mem["p0.isAccepting"]
			if !stored {
				got = an.CBool(f.B("p0.isAccepting"))
			}
			if num(o.Mem["p0.current"]) == cur-1 && got.String() == fmt.Sprint(want) {
				return ""
			}
			return fmt.Sprintf("current=%d, isAccepting=%v", cur-1, want)
		},
	})

	// ---- R2
	cache := map[*ssa.Function]map[ssa.Instruction]an.Held{}
	protected := map[string]bool{"connlimiter.counter.current": true, "connlimiter.counter.isAccepting": true,
		"connlimiter.counter.stop": false, "connlimiter.counter.resume": false, "connlimiter.limitListener.isClosed": true}
	for _, fn := range c.FnsMatching("connlimiter.") {
		if c.IsTestFile(fn.Pos()) || an.FnKey(fn) == "connlimiter.New" || an.FnKey(fn) == "connlimiter.(*Limiter).Limit" {
			continue // constructors: the object is not shared yet
		}
		an.Instrs(fn, func(in ssa.Instruction) {
			fa, ok := in.(*ssa.FieldAddr)
			if !ok {
				return
			}
			typ, field, _, ok := an.FieldOf(fa)
			if !ok || !protected[typ+"."+field] {
				return
			}
			c.Analysed(an.FnKey(fn))
			key := fmt.Sprintf("%s touches %s.%s", an.FnKey(fn), typ, field)
			mode, why := c.HeldAt(in, "counterCond.L", 3, cache)
			if mode == "" {
				c.Bad("C18-R2", key, fa.Pos(), "shared limiter state accessed without counterCond.L: %s", why)
			} else {
				c.Ok("C18-R2", key, fa.Pos(), "counterCond.L held")
			}
		})
	}

	// all listeners of one limiter share its counter and condition variable
	checkFieldMap(c, "C18-R2", "connlimiter.(*Limiter).Limit", "connlimiter.limitListener", map[string]string{"counterCond": "p0.counterCond", "counter": "p0.counter"})

	// ---- R3
	for _, fn := range c.FnsMatching("connlimiter.") {
		if c.IsTestFile(fn.Pos()) {
			continue
		}
		for _, call := range an.Calls(fn) {
			if an.IsCall(call, "(*sync.Cond).Signal") {
				c.Bad("C18-R3", an.FnKey(fn)+" Signal", call.Pos(), "Signal wakes a single waiter although several listeners share the condition variable and one state change can admit several of them")
			}
		}
		var changes []ssa.Instruction
		an.Instrs(fn, func(in ssa.Instruction) {
			switch x := in.(type) {
			case *ssa.Call:
				if an.IsCall(x, "(*connlimiter.counter).decrement") {
					changes = append(changes, x)
				}
			case *ssa.Store:
				typ, field, _, ok := an.FieldOf(x.Addr)
				if ok && typ == "connlimiter.limitListener" && field == "isClosed" {
					if k, isConst := x.Val.(*ssa.Const); isConst && k.Value != nil && k.Value.String() == "true" {
						changes = append(changes, x)
					}
				}
			}
		})
		for _, ch := range changes {
			c.Analysed(an.FnKey(fn))
			key := an.FnKey(fn) + " state change"
			blk, i := an.After(ch)
			exit, reaches := an.ReachesExitAvoiding(blk, i, func(in ssa.Instruction) bool {
				cc, ok := in.(ssa.CallInstruction)
				if !ok {
					return false
				}
				if _, isDefer := cc.(*ssa.Defer); isDefer {
					return false
				}
				return an.IsCall(cc, "(*sync.Cond).Broadcast")
			}, true)
			if reaches {
				c.Bad("C18-R3", key, ch.Pos(), "a path from this state change reaches the exit at %s without Broadcast: waiting accepts are not woken", c.Pos(exit.Pos()))
			} else {
				c.Ok("C18-R3", key, ch.Pos(), "every path to the exit passes Broadcast")
			}
		}
	}

	// ---- R4a limitListener.increment
	decide(c, "C18-R4", "connlimiter.(*limitListener).increment", an.DecideCfg{
		Dom:    an.Domain{"p0.isClosed": an.Bools, "inc": an.Bools},
		StopAt: map[string]bool{"(*sync.Cond).Wait": true},
		OnCall: func(it *an.Interp, name string, args []an.AV) (an.AV, bool) {
			if name == "(*connlimiter.counter).increment" {
				return it.Feature("inc"), true
			}
			return an.AV{}, false
		},
		Expect: func(f an.Features, o an.AOutcome) string {
			n := 0
			for _, cn := range o.Calls() {
				if cn == "(*connlimiter.counter).increment" {
					n++
				}
			}
			switch {
			case f.B("p0.isClosed"):
				if o.Exit == "return" && o.RetString() == "true" && n == 0 {
					return ""
				}
				return "return true without taking a slot on a closed listener"
			case f.B("inc"):
				if o.Exit == "return" && o.RetString() == "false" && n == 1 {
					return ""
				}
				return "return false after exactly one successful increment"
			default:
				if o.Exit == "stop:(*sync.Cond).Wait" && n == 1 {
					return ""
				}
				return "wait on the condition variable after a refused increment"
			}
		},
	})
	// ---- R4b Accept
	decide(c, "C18-R4", "connlimiter.(*limitListener).Accept", an.DecideCfg{
		Dom:    an.Domain{"closed": an.Bools, "accepterr": an.Bools},
		Inline: func(f *ssa.Function) bool { return an.FnKey(f) == "connlimiter.(*limitListener).Accept$1" },
		OnCall: func(it *an.Interp, name string, args []an.AV) (an.AV, bool) {
			switch {
			case name == "(*connlimiter.limitListener).increment":
				return it.Feature("closed"), true
			case name == "p0.Listener.Accept":
				if it.Feature("accepterr").IsTrue() {
					return an.AV{Kind: an.KTuple, Tup: []an.AV{an.Nil(), an.NonNil("acceptErr")}}, true
				}
				return an.AV{Kind: an.KTuple, Tup: []an.AV{an.NonNil("conn"), an.Nil()}}, true
			case strings.HasSuffix(name, "errors.Annotate"):
				return args[0], true
			}
			return an.AV{}, false
		},
		Expect: func(f an.Features, o an.AOutcome) string {
			dec, acc := 0, 0
			for _, cn := range o.Calls() {
				switch cn {
				case "(*connlimiter.limitListener).decrement":
					dec++
				case "p0.Listener.Accept":
					acc++
				}
			}
			if o.Exit != "return" || len(o.Ret) != 2 {
				return "a (conn, err) result"
			}
			switch {
			case f.B("closed"):
				if o.Ret[0].Kind == an.KNil && o.Ret[1].Kind != an.KNil && acc == 0 && dec == 0 {
					return ""
				}
				return "an error without accepting or releasing anything on a closed listener"
			case f.B("accepterr"):
				if o.Ret[0].Kind == an.KNil && o.Ret[1].Kind != an.KNil && dec == 1 {
					return ""
				}
				return "the slot released exactly once when the underlying Accept fails"
			default:
				conn := o.Ret[0]
				d := o.Mem[conn.Key+".decrement"]
				if conn.Dyn == "*connlimiter.limitConn" && dec == 0 && strings.Contains(d.Key, "decrement$bound") &&
					o.Mem[conn.Key+".Conn"].String() == "nonnil:conn" && o.Ret[1].Kind == an.KNil {
					return ""
				}
				return "a limitConn wrapping the accepted connection that carries this listener's decrement; got decrement=" + d.String()
			}
		},
	})
	// ---- R4c limitConn.Close
	decide(c, "C18-R4", "connlimiter.(*limitConn).Close", an.DecideCfg{
		Dom:    an.Domain{"cas": an.Bools},
		Inline: func(f *ssa.Function) bool { return an.FnKey(f) == "connlimiter.(*limitConn).Close$1" },
		OnCall: func(it *an.Interp, name string, args []an.AV) (an.AV, bool) {
			switch {
			case name == "(*sync/atomic.Bool).CompareAndSwap":
				if len(args) == 3 && args[0].String() == "&p0.isClosed" && args[1].IsFalse() && args[2].IsTrue() {
					return it.Feature("cas"), true
				}
				return an.Sym("compare-and-swap on something else"), true
			case strings.HasSuffix(name, "errors.Annotate"):
				return args[0], true
			}
			return an.AV{}, false
		},
		Expect: func(f an.Features, o an.AOutcome) string {
			dec, cl := 0, 0
			for _, cn := range o.Calls() {
				if cn == "dyn:p0.decrement" {
					dec++
				}
				if cn == "p0.Conn.Close" {
					cl++
				}
			}
			if !f.B("cas") {
				if dec == 0 && cl == 0 {
					return ""
				}
				return "no release and no close on a repeated Close"
			}
			if dec == 1 && cl == 1 {
				return ""
			}
			return "exactly one release and one close of the connection on the first Close"
		},
	})

	// ---- R5a acceptTCPMsg
	decide(c, "C18-R5", "dnsserver.(*ServerDNS).acceptTCPMsg", an.DecideCfg{
		Dom: an.Domain{"readerr": an.Bools, "acqerr": an.Bools, "istype(p1, dnsserver.tlsConnectionStater)": an.Bools},
		OnCall: func(it *an.Interp, name string, args []an.AV) (an.AV, bool) {
			switch {
			case strings.HasSuffix(name, ").readTCPMsg"):
				if it.Feature("readerr").IsTrue() {
					return an.AV{Kind: an.KTuple, Tup: []an.AV{an.Nil(), an.NonNil("readErr")}}, true
				}
				return an.AV{Kind: an.KTuple, Tup: []an.AV{an.NonNil("buf"), an.Nil()}}, true
			case name == "p5.Acquire":
				if it.Feature("acqerr").IsTrue() {
					return an.NonNil("acqErr"), true
				}
				return an.Nil(), true
			case strings.HasPrefix(name, "istype("):
			}
			return an.AV{}, false
		},
		Expect: func(f an.Features, o an.AOutcome) string {
			acq, sub := o.CallIndex("p5.Acquire"), -1
			for i, cn := range o.Calls() {
				if strings.HasSuffix(cn, ".Submit") {
					sub = i
				}
			}
			switch {
			case f.B("readerr"):
				if acq < 0 && sub < 0 {
					return ""
				}
				return "no acquire and no submit after a read error"
			case f.B("acqerr"):
				if acq >= 0 && sub < 0 {
					return ""
				}
				return "no submit when the pipeline semaphore was not acquired"
			default:
				if acq >= 0 && sub > acq {
					return ""
				}
				return "submit after a successful acquire"
			}
		},
		// the connection's dynamic type does not matter
	})
	// ---- R5b the worker releases exactly once, deferred
	if fn := c.Fn("dnsserver.(*ServerDNS).acceptTCPMsg$1"); fn == nil {
		c.Und("C18-R5", "dnsserver.(*ServerDNS).acceptTCPMsg$1", token.NoPos, "worker closure not found")
	} else {
		c.Analysed(an.FnKey(fn))
		rel, deferred := 0, 0
		for _, call := range an.Calls(fn) {
			cc := call.Common()
			if cc.IsInvoke() && cc.Method.Name() == "Release" && an.TypeName(cc.Value.Type()) == "github.com/AdguardTeam/golibs/syncutil.Semaphore" {
				rel++
				if _, ok := call.(*ssa.Defer); ok && call.Block() == fn.Blocks[0] {
					deferred++
				}
			}
		}
		c.Check(rel == 1 && deferred == 1, "C18-R5", an.FnKey(fn)+" release", fn.Pos(),
			"the worker releases the pipeline semaphore exactly once, deferred at its start",
			fmt.Sprintf("the worker must release the pipeline semaphore exactly once in a defer at its start (found %d releases, %d deferred)", rel, deferred))
	}
	// ---- R5b': nobody else acquires or releases a pipeline semaphore
	for _, fn := range c.AllFns {
		if c.IsTestFile(fn.Pos()) || !strings.HasPrefix(an.FnKey(fn), "dnsserver.") {
			continue
		}
		for _, call := range an.Calls(fn) {
			cc := call.Common()
			if !cc.IsInvoke() || an.TypeName(cc.Value.Type()) != "github.com/AdguardTeam/golibs/syncutil.Semaphore" {
				continue
			}
			key := an.FnKey(fn) + " " + cc.Method.Name()
			switch {
			case cc.Method.Name() == "Release" && an.FnKey(fn) == "dnsserver.(*ServerDNS).acceptTCPMsg$1",
				cc.Method.Name() == "Acquire" && an.FnKey(fn) == "dnsserver.(*ServerDNS).acceptTCPMsg":
				c.Ok("C18-R5", key, call.Pos(), "the pipeline semaphore is acquired by acceptTCPMsg and released by its worker only")
			default:
				c.Bad("C18-R5", key, call.Pos(), "the pipeline semaphore is %sd outside acceptTCPMsg and its worker: a slot is taken or freed twice for one query", strings.ToLower(cc.Method.Name()))
			}
		}
	}

	// ---- R5c serveTCPConn sizes and passes the semaphore
	decide(c, "C18-R5", "dnsserver.(*ServerDNS).serveTCPConn", an.DecideCfg{
		Dom:    an.Domain{"p0.conf.MaxPipelineEnabled": an.Bools},
		Inline: func(f *ssa.Function) bool { return false },
		OnCall: func(it *an.Interp, name string, args []an.AV) (an.AV, bool) {
			switch {
			case strings.HasSuffix(name, "dnsserver.handshake"):
				return an.Nil(), true
			case strings.HasSuffix(name, ").isStarted"):
				n := 0
				for _, e := range it.Effects {
					if strings.HasSuffix(e.Name, ").isStarted") {
						n++
					}
				}
				return an.CBool(n == 1), true
			case strings.HasSuffix(name, ").acceptTCPMsg"):
				return an.Nil(), true
			case strings.HasSuffix(name, "syncutil.NewChanSemaphore"):
				return an.NonNil("chanSema(" + args[0].String() + ")"), true
			}
			return an.AV{}, false
		},
		Expect: func(f an.Features, o an.AOutcome) string {
			passed := ""
			for _, e := range o.Effects {
				if e.Kind == "call" && strings.HasSuffix(e.Name, ").acceptTCPMsg") && len(e.Args) == 6 {
					if passed != "" && passed != e.Args[5] {
						return "every message of the connection (the first one included) accepted under the same semaphore; got " + passed + " and " + e.Args[5]
					}
					passed = e.Args[5]
				}
			}
			if f.B("p0.conf.MaxPipelineEnabled") {
				if passed == "nonnil:chanSema(p0.conf.MaxPipelineCount)" {
					return ""
				}
				return "a semaphore sized by MaxPipelineCount passed to acceptTCPMsg; got " + passed
			}
			if strings.Contains(passed, "EmptySemaphore") || strings.Contains(passed, "zero:") || passed != "" && !strings.Contains(passed, "chanSema") {
				return ""
			}
			return "the empty semaphore when pipeline limiting is off; got " + passed
		},
	})
}

// c18Config checks that the limits reach the servers that enforce them.
func c18Config(c *an.Ctx) {
	// every stream server is built on newServerDNS with the caller's ConfigDNS unchanged
	for _, ctor := range []string{"dnsserver.NewServerDNS", "dnsserver.NewServerTLS"} {
		fn := c.Fn(ctor)
		if fn == nil {
			c.Und("C18-R6", ctor+" passes its ConfigDNS on", token.NoPos, "anchor not found")
			continue
		}
		c.Analysed(ctor)
		calls := an.CallsTo(fn, "dnsserver.newServerDNS")
		if len(calls) != 1 {
			c.Und("C18-R6", ctor+" passes its ConfigDNS on", fn.Pos(), "expected one call of newServerDNS, found %d", len(calls))
			continue
		}
		arg := calls[0].Common().Args[1]
		// the argument is the parameter (NewServerDNS) or its embedded ConfigDNS field (NewServerTLS), loaded whole
		ap, ok := an.AccessPath(arg)
		if ld, isLoad := arg.(*ssa.UnOp); isLoad {
			// a by-value parameter spilled into a local: look through the spill
			root := ld.X
			suffix := ""
			if fa, isFA := root.(*ssa.FieldAddr); isFA {
				_, f, base, _ := an.FieldOf(fa)
				root, suffix = base, "."+f
			}
			if al, isAl := root.(*ssa.Alloc); isAl {
				if st := an.SingleStore(al); st != nil {
					if pa, isPa := st.Val.(*ssa.Parameter); isPa {
						ap, ok = fmt.Sprintf("p%d%s", an.ParamIndex(pa), suffix), true
					}
				}
			}
		}
		c.Check(ok && (ap == "p0" || ap == "p0.ConfigDNS"), "C18-R6", ctor+" passes its ConfigDNS on", calls[0].Pos(),
			"the stream server keeps the caller's whole ConfigDNS (pipeline switch, pipeline count, listen config with the connection limiter)",
			"the stream server is built from a re-assembled ConfigDNS ("+ap+"): a setting not copied (pipeline switch, count, limiter) is silently off for this transport")
	}
	n := sharedPartialCopy(c, "C18-R6", func(fn *ssa.Function) bool {
		k := an.FnKey(fn)
		return strings.HasPrefix(k, "dnsserver.") || strings.HasPrefix(k, "dnssvc.") || strings.HasPrefix(k, "cmd.")
	}, map[string]string{})
	c.Inf("C18-R6", "partial-copy sweep", token.NoPos, "%d field-by-field copies of a configuration struct examined in dnsserver, dnssvc and cmd", n)
	// the listener constructors hand the TCP limits to both stream transports
	checkFieldMap(c, "C18-R6", "dnssvc.NewListener", "dnsserver.ConfigDNS", map[string]string{
		"MaxPipelineCount": ".MaxPipelineCount", "MaxPipelineEnabled": ".MaxPipelineEnabled"})
}

// c18Wiring holds the tables showing that the configured limiter is the one
// every stream listener of every server uses.
func c18Wiring(c *an.Ctx) {
	c.Floor("C18-R7", 5)
	decide(c, "C18-R7", "connlimiter.New", an.DecideCfg{
		Dom: an.Domain{"p0": {an.Nil(), an.NonNil("cfg")}, "(cfg.Stop == 0)": an.Bools, "(cfg.Stop < cfg.Resume)": an.Bools},
		OnCall: func(it *an.Interp, name string, args []an.AV) (an.AV, bool) {
			switch {
			case name == "sync.NewCond":
				return an.NonNil("cond"), true
			case name == "fmt.Errorf":
				return an.NonNil("cfgErr"), true
			}
			return an.AV{}, false
		},
		Expect: func(f an.Features, o an.AOutcome) string {
			if len(o.Ret) != 2 {
				return "a (limiter, err) result"
			}
			bad := f.IsNil("p0") || f.B("(cfg.Stop == 0)") || f.B("(cfg.Stop < cfg.Resume)")
			if bad {
				if o.Ret[0].Kind == an.KNil && o.Ret[1].Kind != an.KNil {
					return ""
				}
				return "an error for a missing configuration, a zero stop threshold or resume above stop; got " + o.RetString()
			}
			k := strings.TrimPrefix(o.Ret[0].String(), "&")
			ck := strings.TrimPrefix(o.Mem[k+".counter"].String(), "&")
			for fld, want := range map[string]string{"stop": "cfg.Stop", "resume": "cfg.Resume", "isAccepting": "true", "current": "0"} {
				if got := o.Mem[ck+"."+fld].String(); got != want {
					return fmt.Sprintf("counter.%s = %s; got %s", fld, want, got)
				}
			}
			if o.Mem[k+".counterCond"].String() != "nonnil:cond" {
				return "one condition variable for the limiter"
			}
			return ""
		},
	})
	decide(c, "C18-R7", "connlimiter.(*Limiter).Limit", an.DecideCfg{
		Dom: an.Domain{},
		OnCall: func(it *an.Interp, name string, args []an.AV) (an.AV, bool) {
			switch {
			case strings.Contains(name, "prometheus.") || strings.Contains(name, "slog.Logger).With"), strings.HasSuffix(name, ".String"):
				return an.NonNil("x"), true
			case name == "sync.NewCond":
				return an.NonNil("another condition variable"), true
			}
			return an.AV{}, false
		},
		Expect: func(f an.Features, o an.AOutcome) string {
			if len(o.Ret) != 1 {
				return "a listener"
			}
			k := strings.TrimPrefix(o.Ret[0].String(), "&")
			for fld, want := range map[string]string{"counter": "p0.counter", "counterCond": "p0.counterCond", "Listener": "p1", "isClosed": "false"} {
				if got := o.Mem[k+"."+fld].String(); got != want {
					return fmt.Sprintf("the wrapped listener's %s = %s (all listeners of one limiter share its counter and its condition variable, so that a slot freed anywhere wakes every waiting accept); got %s", fld, want, got)
				}
			}
			return ""
		},
	})
	decide(c, "C18-R7", "connlimiter.(*ListenConfig).Listen", an.DecideCfg{
		Dom: an.Domain{"err": an.Bools},
		OnCall: func(it *an.Interp, name string, args []an.AV) (an.AV, bool) {
			switch {
			case name == "p0.listenConfig.Listen":
				if it.Feature("err").IsTrue() {
					return an.AV{Kind: an.KTuple, Tup: []an.AV{an.Nil(), an.NonNil("listenErr")}}, true
				}
				return an.AV{Kind: an.KTuple, Tup: []an.AV{an.NonNil("lsnr"), an.Nil()}}, true
			case strings.HasSuffix(name, "dnsserver.MustServerInfoFromContext"):
				return an.NonNil("info"), true
			case strings.HasSuffix(name, "connlimiter.Limiter).Limit"):
				return an.NonNil("limited(" + args[0].String() + "," + args[1].String() + ")"), true
			}
			return an.AV{}, false
		},
		Expect: func(f an.Features, o an.AOutcome) string {
			want := "nonnil:limited(p0.limiter,nonnil:lsnr), nil"
			if f.B("err") {
				want = "nil, nonnil:listenErr"
			}
			if o.RetString() != want {
				return want + " (every stream listener is wrapped by the limiter); got " + o.RetString()
			}
			return ""
		},
	})
	proto := func(n string) int64 { v, _ := c.ConstInt("agd", n); return v }
	decide(c, "C18-R7", "dnssvc.newListenConfig", an.DecideCfg{
		Dom: an.Domain{"p0": {an.Nil(), an.NonNil("orig")}, "p2": {an.Nil(), an.NonNil("lim")}, "p3": an.Ints(proto("ProtoDNS"), proto("ProtoDoT"))},
		OnCall: func(it *an.Interp, name string, args []an.AV) (an.AV, bool) {
			switch {
			case strings.HasSuffix(name, "connlimiter.NewListenConfig"):
				return an.NonNil("limitedlc(" + args[0].String() + "," + args[1].String() + ")"), true
			case strings.HasSuffix(name, "netext.DefaultListenConfigWithOOB"), strings.HasSuffix(name, "netext.DefaultListenConfig"):
				return an.NonNil("default"), true
			}
			return an.AV{}, false
		},
		Expect: func(f an.Features, o an.AOutcome) string {
			base := "nonnil:default"
			if !f.IsNil("p0") {
				base = "nonnil:orig"
			}
			want := base
			if !f.IsNil("p2") {
				want = "nonnil:limitedlc(" + base + ",nonnil:lim)"
			}
			if o.RetString() != want {
				return want + " (the listen configuration is wrapped by the limiter whenever one is configured, for every protocol); got " + o.RetString()
			}
			return ""
		},
	})
	checkFieldMap(c, "C18-R7", "cmd.(*connLimitConfig).toInternal", "connlimiter.Config", map[string]string{"Stop": ".Stop", "Resume": ".Resume"})
}

// c18Close is the table of limitListener.Close: whatever the underlying
// listener's Close returns, the listener is marked closed and the waiting
// accepts are woken.
func c18Close(c *an.Ctx) {
	c.Floor("C18-R8", 1)
	decide(c, "C18-R8", "connlimiter.(*limitListener).Close", an.DecideCfg{
		Dom: an.Domain{"p0.isClosed": an.Bools, "closeerr": an.Bools},
		Inline: func(f *ssa.Function) bool {
			k := an.FnKey(f)
			return strings.HasPrefix(k, "connlimiter.(*limitListener).Close$") || strings.HasPrefix(k, "connlimiter.(*limitListener).markClosed")
		},
		OnCall: func(it *an.Interp, name string, args []an.AV) (an.AV, bool) {
			switch {
			case name == "p0.Listener.Close":
				if it.Feature("closeerr").IsTrue() {
					return an.NonNil("closeErr"), true
				}
				return an.Nil(), true
			case strings.HasSuffix(name, "errors.Annotate"):
				return args[0], true
			}
			return an.AV{}, false
		},
		Expect: func(f an.Features, o an.AOutcome) string {
			if len(o.Ret) != 1 {
				return "an error result"
			}
			if o.CallIndex("p0.counterCond.L.Lock") != 0 {
				return "the listener's state changed under the limiter's lock"
			}
			closed := false
			for _, s := range o.Stores() {
				if s == "p0.isClosed=true" {
					closed = true
				}
			}
			bc := o.HasCall("(*sync.Cond).Broadcast")
			if f.B("p0.isClosed") {
				if o.Ret[0].Kind != an.KNil && !o.HasCall("p0.Listener.Close") {
					return ""
				}
				return "an error and no second close for an already closed listener"
			}
			if !closed || !bc {
				return fmt.Sprintf("the listener marked closed and every waiting accept woken, also when the underlying Close fails (closed=%v broadcast=%v)", closed, bc)
			}
			if f.B("closeerr") != (o.Ret[0].Kind != an.KNil) {
				return "the underlying Close's error returned"
			}
			return ""
		},
	})
}

// c18ShutdownOrder: a stream server's worker pool is released only after the
// server has waited for its connections (waitShutdown).  Released earlier, a
// connection whose read loop is still alive gets "pool closed" from Submit
// after it has already counted the message in its wait group; its clean-up then
// waits for ever, the connection is never closed and its slot in the shared
// connection limiter is never given back.
func c18ShutdownOrder(c *an.Ctx) {
	n := 0
	for _, fn := range c.AllFns {
		if fn.Blocks == nil || c.IsTestFile(fn.Pos()) || fn.Name() != "Shutdown" || !strings.HasPrefix(an.FnKey(fn), "dnsserver.") {
			continue
		}
		var release, wait ssa.CallInstruction
		for _, call := range an.Calls(fn) {
			name := an.CalleeName(call)
			switch {
			case strings.HasSuffix(name, "ants/v2.Pool).Release"):
				release = call
			case strings.HasSuffix(name, ").waitShutdown"):
				wait = call
			}
		}
		if release == nil {
			continue
		}
		n++
		k := an.FnKey(fn)
		c.Analysed(k)
		c.Check(wait != nil && an.Dominates(wait, release), "C18-R10", k+" releases the worker pool after waiting for the connections", fn.Pos(),
			"waitShutdown dominates the release of the worker pool",
			"the worker pool is released before (or without) waiting for the connections: a live connection's Submit fails after its wait group was incremented, so the connection is never closed and its limiter slot never freed")
	}
	if n == 0 {
		c.Und("C18-R10", "worker pool release on shutdown", token.NoPos, "no Shutdown method releasing a worker pool found")
	}
}

// c18AcceptedConn: a connection that Accept has handed out (it already holds a
// slot of the shared connection limiter) is, on every path of acceptTCPConn,
// given to the worker that serves and closes it, or closed; no path returns
// with the connection simply dropped.  And closeListeners closes every listener
// whatever the result of closing the others.
func c18AcceptedConn(c *an.Ctx) {
	const k = "dnsserver.(*ServerDNS).acceptTCPConn"
	if fn := c.Fn(k); fn == nil {
		c.Und("C18-R11", k+" keeps or closes the accepted connection", token.NoPos, "anchor not found")
	} else {
		c.Analysed(k)
		var accept *ssa.Call
		for _, call := range an.Calls(fn) {
			if cv, ok := call.(*ssa.Call); ok && call.Common().IsInvoke() && call.Common().Method.Name() == "Accept" {
				accept = cv
			}
		}
		if accept == nil {
			c.Und("C18-R11", k+" keeps or closes the accepted connection", fn.Pos(), "no Accept call")
		} else {
			// the success edge of Accept's error test
			var okBlock *ssa.BasicBlock
			var errEdges []an.CondEdge
			for _, b := range fn.Blocks {
				ifi, isIf := b.Instrs[len(b.Instrs)-1].(*ssa.If)
				if !isIf {
					continue
				}
				for _, br := range []bool{true, false} {
					e := an.CondEdge{If: ifi, Branch: br}
					if an.ErrNonNilEdgeOf(e, accept) {
						okBlock = an.CondEdge{If: ifi, Branch: !br}.To()
						errEdges = append(errEdges, e)
					}
				}
			}
			if okBlock == nil {
				c.Und("C18-R11", k+" keeps or closes the accepted connection", fn.Pos(), "the error test of Accept was not recognised")
			} else {
				// the connection value
				var conn ssa.Value
				if accept.Referrers() != nil {
					for _, r := range *accept.Referrers() {
						if ex, isEx := r.(*ssa.Extract); isEx && ex.Index == 0 {
							conn = ex
						}
					}
				}
				uses := func(in ssa.Instruction) bool {
					switch x := in.(type) {
					case *ssa.MakeClosure:
						for _, b := range x.Bindings {
							if b == conn {
								return true
							}
							// captured through a cell
							if al, isAl := b.(*ssa.Alloc); isAl {
								for _, st := range an.Stores(al) {
									if st.Val == conn {
										return true
									}
								}
							}
						}
					case ssa.CallInstruction:
						if x.Common().IsInvoke() && x.Common().Method.Name() == "Close" && x.Common().Value == conn {
							return true
						}
					}
					return false
				}
				// from the Accept itself: the only exits that need not dispose of the connection are those through
				// the error edge of Accept (there is no connection then)
				leak := exitAvoiding(accept, errEdges, func(in ssa.Instruction) bool {
					// only the hand-over to the worker or a Close disposes of the connection; the registration in
					// tcpConns does not
					if mc, isMC := in.(*ssa.MakeClosure); isMC {
						if f, isF := mc.Fn.(*ssa.Function); isF {
							handsOver := false
							for _, call := range an.Calls(f) {
								if strings.HasSuffix(an.CalleeName(call), ").serveTCPConn") {
									handsOver = true
								}
							}
							return handsOver && uses(in)
						}
					}
					_, isCall := in.(ssa.CallInstruction)
					return isCall && uses(in)
				})
				c.Check(!leak, "C18-R11", k+" keeps or closes the accepted connection", accept.Pos(),
					"every path after a successful Accept hands the connection to serveTCPConn or closes it",
					"a path returns after a successful Accept without handing the connection to its worker or closing it: the connection and its slot in the shared limiter are lost")
			}
		}
	}
	const cl = "dnsserver.(*ServerBase).closeListeners"
	if fn := c.Fn(cl); fn == nil {
		c.Und("C18-R11", cl+" closes every listener", token.NoPos, "anchor not found")
	} else {
		c.Analysed(cl)
		closes := 0
		for _, call := range an.Calls(fn) {
			if call.Common().IsInvoke() && call.Common().Method.Name() == "Close" {
				closes++
			}
		}
		c.Check(closes >= 2 && len(an.Returns(fn)) == 1, "C18-R11", cl+" closes every listener", fn.Pos(),
			"both listeners are closed on the single path to the only return",
			fmt.Sprintf("%d Close calls and %d returns: an early return after a failed Close leaves the other listener open, and its accept loop keeps its limiter slot", closes, len(an.Returns(fn))))
	}
}

// c18LimiterVerbatim: every listener is built with the service's connection
// limiter as it is.  The decision which network of which protocol is wrapped
// belongs to newListenConfig (see the table of C20-R12); a limiter that is
// replaced on some path before it gets there (nil for protocols thought to have
// no stream connections) leaves the TCP listeners of that protocol outside the
// shared count.
func c18LimiterVerbatim(c *an.Ctx, rule string) (examined int) {
	for _, fn := range c.Prog.FnsMatching("dnssvc.") {
		if fn.Blocks == nil || c.IsTestFile(fn.Pos()) {
			continue
		}
		for _, call := range an.Calls(fn) {
			callee := an.StaticCallee(call)
			if callee == nil || an.FnKey(callee) != "dnssvc.newListenConfig" {
				continue
			}
			for i, p := range callee.Params {
				if !strings.Contains(an.TypeName(an.Deref(p.Type())), "connlimiter.Limiter") {
					continue
				}
				examined++
				c.Analysed(an.FnKey(fn))
				a := call.Common().Args[i]
				ok := false
				if ld, isLoad := a.(*ssa.UnOp); isLoad && ld.Op == token.MUL {
					if _, f, _, isField := an.FieldOf(ld.X); isField && f == "ConnLimiter" {
						ok = true
					}
				}
				c.Check(ok, rule, fmt.Sprintf("%s hands the configured limiter to newListenConfig (call %d)", an.FnKey(fn), siteIndex(fn, call)), call.Pos(),
					"the argument is the ConnLimiter field of the configuration, as it is",
					"the limiter given to newListenConfig is computed ("+a.String()+"), not the configured one as it is: some listeners are built without the shared limiter")
			}
		}
	}
	return examined
}

// c18AcceptLoopCounted: a server's Shutdown waits for its wait group and then
// releases the worker pool.  The accept loop itself has to be in that wait
// group: otherwise a connection that Accept hands out while Shutdown runs is
// submitted to a released pool, the Submit fails, and nobody closes the
// connection (its slot in the shared limiter is never released).  Every `go
// s.startServeTCP(…)` of the stream servers is preceded by s.wg.Add, and the
// started function defers s.wg.Done.
func c18AcceptLoopCounted(c *an.Ctx, rule string) (examined int) {
	for _, fn := range c.Prog.FnsMatching("dnsserver.(*Server") {
		if fn.Blocks == nil || c.IsTestFile(fn.Pos()) || fn.Name() != "Start" {
			continue
		}
		for _, call := range an.Calls(fn) {
			g, ok := call.(*ssa.Go)
			if !ok {
				continue
			}
			callee := an.StaticCallee(g)
			if callee == nil || callee.Name() != "startServeTCP" {
				continue
			}
			examined++
			c.Analysed(an.FnKey(fn))
			added := false
			for _, cl := range an.Calls(fn) {
				if strings.HasSuffix(an.CalleeName(cl), "sync.WaitGroup).Add") && an.Dominates(cl, g) {
					if ap, ok := an.AccessPath(cl.Common().Args[0]); ok && strings.HasSuffix(ap, ".wg") {
						added = true
					}
				}
			}
			done := false
			for _, cl := range an.Calls(callee) {
				if _, isDefer := cl.(*ssa.Defer); isDefer && strings.HasSuffix(an.CalleeName(cl), "sync.WaitGroup).Done") {
					done = true
				}
			}
			c.Check(added && done, rule, an.FnKey(fn)+" counts its TCP accept loop in the wait group", g.Pos(),
				"wg.Add before the goroutine starts, deferred wg.Done in "+an.FnKey(callee),
				fmt.Sprintf("the accept loop is started without being counted (Add before go: %v, deferred Done in %s: %v): Shutdown does not wait for it, releases the worker pool, and a connection accepted in that window is never closed", added, callee.Name(), done))
		}
	}
	return examined
}

// c18WrapperCloses: closing a connection wrapper closes what it wraps, on
// every path.  The limiter's connection sits under the TLS wrapper; a Close
// that returns early (because the handshake never finished, say) leaves the
// limiter's connection open and its slot taken for ever.  In tlsConn.Close no
// return is reachable without a Close call on the wrapped connection.
func c18WrapperCloses(c *an.Ctx, rule string) {
	const k = "dnsserver.(*tlsConn).Close"
	fn := c.Fn(k)
	key := k + " closes the wrapped connection on every path"
	if fn == nil {
		c.Und(rule, key, token.NoPos, "anchor not found")
		return
	}
	c.Analysed(k)
	closes := func(in ssa.Instruction) bool {
		call, ok := in.(ssa.CallInstruction)
		if !ok {
			return false
		}
		if call.Common().IsInvoke() {
			return call.Common().Method.Name() == "Close"
		}
		return strings.HasSuffix(an.CalleeName(call), ".Close")
	}
	leak := token.NoPos
	seen := map[*ssa.BasicBlock]bool{}
	work := []*ssa.BasicBlock{fn.Blocks[0]}
	for len(work) > 0 && leak == token.NoPos {
		b := work[len(work)-1]
		work = work[:len(work)-1]
		if seen[b] {
			continue
		}
		seen[b] = true
		closed := false
		for _, in := range b.Instrs {
			if closes(in) {
				closed = true
				break
			}
			if r, ok := in.(*ssa.Return); ok {
				leak = r.Pos()
				if leak == token.NoPos {
					leak = fn.Pos()
				}
			}
		}
		if !closed {
			work = append(work, b.Succs...)
		}
	}
	c.Check(leak == token.NoPos, rule, key, fn.Pos(), "no return is reachable without a Close of the wrapped connection",
		"the return at "+c.Pos(leak)+" is reached without closing the wrapped connection: the limiter's connection under the TLS wrapper stays open and its slot is never released")
}

// c18SharedMutexCallFree: the mutex behind counterCond is shared by every
// listener of one limiter: Accept of each of them, Close of each of their
// connections and Close of each listener take it.  A call made under it that can
// block for reasons of its own (Close of the wrapped listener, which takes the
// listener's own lock) stops all of them: waiters cannot wake up (Wait has to
// re-acquire the mutex), closing connections cannot give their slots back.  So
// under counterCond.L only the counter, the condition variable, the gauges and
// the logger are called.  Returns the number of calls found under the mutex.
func c18SharedMutexCallFree(c *an.Ctx, rule string) (examined int) {
	allowed := func(call ssa.CallInstruction) bool {
		name := an.CalleeName(call)
		for _, p := range []string{"connlimiter.counter).", "(*sync.Cond).", "(*sync.Mutex).", "(*log/slog.Logger).", "(*sync/atomic."} {
			if strings.Contains(name, p) {
				return true
			}
		}
		if call.Common().IsInvoke() {
			recv := call.Common().Value.Type().String()
			if strings.HasSuffix(recv, "sync.Locker") || strings.Contains(recv, "prometheus.Gauge") || strings.Contains(recv, "prometheus.Counter") {
				return true
			}
		}
		if _, isBuiltin := call.Common().Value.(*ssa.Builtin); isBuiltin {
			return true
		}
		return false
	}
	for _, fn := range c.AllFns {
		k := an.FnKey(fn)
		if fn.Blocks == nil || c.IsTestFile(fn.Pos()) || !c.Prog.InRepo(fn) || !strings.Contains(k, "connlimiter.") {
			continue
		}
		perCallee := map[string]int{}
		for _, call := range an.Calls(fn) {
			if _, isDefer := call.(*ssa.Defer); isDefer {
				continue
			}
			if mutexLockKind(call) != "" {
				continue
			}
			held := heldMutexAt(fn, call)
			if !strings.HasSuffix(held, "counterCond.L") {
				continue
			}
			examined++
			c.Analysed(k)
			name := an.CalleeName(call)
			if call.Common().IsInvoke() {
				name = call.Common().Value.Type().String() + "." + call.Common().Method.Name()
			}
			perCallee[name]++
			c.Check(allowed(call), rule, fmt.Sprintf("%s: call %d of %s under the shared mutex", k, perCallee[name], name), call.Pos(),
				"the callee is the counter, the condition variable, a gauge or the logger",
				fmt.Sprintf("%s is called at %s while %s, the mutex of every listener of the limiter, is held: if it blocks (Close of a listener takes that listener's own lock), no waiter wakes up and no connection gives its slot back", name, c.Pos(call.Pos()), held))
		}
	}
	return examined
}

// c18WrapperKeepsAccepted: tlsListener.Accept takes a connection from the wrapped
// listener, which with the limiter enabled is a counted limitConn.  Every exit
// after a successful inner Accept has either used the connection (wrapped it:
// handed it to tls.Server or stored it in the returned object) or closed it.
func c18WrapperKeepsAccepted(c *an.Ctx, rule string) {
	k := "dnsserver.(*tlsListener).Accept"
	fn := c.Prog.Fn(k)
	key := k + " wraps or closes the connection it accepted"
	if fn == nil {
		c.Und(rule, key, token.NoPos, "anchor not found")
		return
	}
	c.Analysed(k)
	var accept *ssa.Call
	for _, call := range an.Calls(fn) {
		if cv, ok := call.(*ssa.Call); ok && call.Common().IsInvoke() && call.Common().Method.Name() == "Accept" {
			accept = cv
		}
	}
	if accept == nil {
		c.Und(rule, key, fn.Pos(), "no inner Accept call")
		return
	}
	var errEdges []an.CondEdge
	for _, b := range fn.Blocks {
		ifi, isIf := b.Instrs[len(b.Instrs)-1].(*ssa.If)
		if !isIf {
			continue
		}
		for _, br := range []bool{true, false} {
			if e := (an.CondEdge{If: ifi, Branch: br}); an.ErrNonNilEdgeOf(e, accept) {
				errEdges = append(errEdges, e)
			}
		}
	}
	if len(errEdges) == 0 {
		c.Und(rule, key, fn.Pos(), "the error test of the inner Accept was not recognised")
		return
	}
	var conn ssa.Value
	for _, r := range *accept.Referrers() {
		if ex, isEx := r.(*ssa.Extract); isEx && ex.Index == 0 {
			conn = ex
		}
	}
	leak := exitAvoiding(accept, errEdges, func(in ssa.Instruction) bool {
		switch x := in.(type) {
		case *ssa.Store:
			return x.Val == conn
		case ssa.CallInstruction:
			if x.Common().IsInvoke() && x.Common().Method.Name() == "Close" && x.Common().Value == conn {
				return true
			}
			for _, a := range x.Common().Args {
				if a == conn {
					return true
				}
			}
		}
		return false
	})
	c.Check(!leak, rule, key, accept.Pos(), "every exit after a successful inner Accept has wrapped or closed the connection",
		"a path returns after a successful inner Accept without having wrapped or closed the connection: nobody will close it, and its slot in the shared limiter is taken for ever")
}

// c18ShutdownClosesListeners: a listener wrapped by the connection limiter holds
// a slot while it waits in Accept.  The servers close their listeners in
// shutdown(), the step that marks them stopped, before anything that can fail
// or time out (waiting for connections, the DNSCrypt library's own shutdown).
// Every return of a nil error from shutdown is dominated by closeListeners.
func c18ShutdownClosesListeners(c *an.Ctx, rule string) {
	for _, k := range []string{"dnsserver.(*ServerDNS).shutdown", "dnsserver.(*ServerDNSCrypt).shutdown"} {
		fn := c.Prog.Fn(k)
		key := k + " closes the listeners before it reports success"
		if fn == nil {
			c.Und(rule, key, token.NoPos, "anchor not found")
			continue
		}
		c.Analysed(k)
		// the step that marks the server stopped
		var stop *ssa.Store
		an.Instrs(fn, func(in ssa.Instruction) {
			if st, ok := in.(*ssa.Store); ok {
				if _, f, _, ok := an.FieldOf(st.Addr); ok && f == "started" {
					if kc, isK := st.Val.(*ssa.Const); isK && kc.Value != nil && kc.Value.String() == "false" {
						stop = st
					}
				}
			}
		})
		if stop == nil {
			c.Und(rule, key, fn.Pos(), "the store started = false was not found")
			continue
		}
		leak := exitAvoiding(stop, nil, func(in ssa.Instruction) bool {
			call, ok := in.(ssa.CallInstruction)
			return ok && strings.HasSuffix(an.CalleeName(call), "ServerBase).closeListeners")
		})
		c.Check(!leak, rule, key, stop.Pos(), "closeListeners lies on every path from started = false to a return",
			"the server is marked stopped at "+c.Pos(stop.Pos())+" and shutdown can return without having closed the listeners: if the rest of Shutdown fails or times out, the (limited) listener stays open and its pending accept keeps a slot of the shared limiter for ever")
	}
}

// c18ListenersThroughConfig: connlimiter.ListenConfig wraps the listeners that a
// server asks its ListenConfig for.  A listener made by a direct call of
// net.Listen, net.ListenTCP or tls.Listen is not counted: its connections and
// its pending accept are outside the limit.
func c18ListenersThroughConfig(c *an.Ctx, rule string) {
	n := 0
	for _, fn := range c.AllFns {
		k := an.FnKey(fn)
		if fn.Blocks == nil || c.IsTestFile(fn.Pos()) || !strings.HasPrefix(k, "dnsserver.") {
			continue
		}
		n++
		for _, call := range an.Calls(fn) {
			switch an.CalleeName(call) {
			case "crypto/tls.Listen", "net.Listen", "net.ListenTCP", "net.ListenUnix", "net.FileListener":
				c.Analysed(k)
				c.Bad(rule, k+" asks its ListenConfig for its listeners", call.Pos(),
					"%s is called at %s: the listener is not made by the server's ListenConfig, so the connection limiter (and the socket options) configured there do not apply to it", an.CalleeName(call), c.Pos(call.Pos()))
			}
		}
	}
	if n == 0 {
		c.Und(rule, "direct listener creation in dnsserver", token.NoPos, "no function of package dnsserver found")
		return
	}
	c.Ok(rule, "direct listener creation in dnsserver", token.NoPos, "%d functions of package dnsserver scanned", n)
}

// c18ListenConfigKept: the New* constructors of dnsserver fill in a default
// ListenConfig when the caller passed none.  Every store into a ListenConfig
// field in them is dominated by the "is nil" edge of a test of that field.
// Returns the number of stores examined.
func c18ListenConfigKept(c *an.Ctx, rule string) (examined int) {
	for _, fn := range c.AllFns {
		k := an.FnKey(fn)
		if fn.Blocks == nil || c.IsTestFile(fn.Pos()) || !strings.HasPrefix(k, "dnsserver.") || !(strings.HasPrefix(fn.Name(), "New") || strings.HasPrefix(fn.Name(), "new")) {
			continue
		}
		an.Instrs(fn, func(in ssa.Instruction) {
			st, ok := in.(*ssa.Store)
			if !ok {
				return
			}
			_, f, _, ok := an.FieldOf(st.Addr)
			if !ok || f != "ListenConfig" {
				return
			}
			examined++
			c.Analysed(k)
			guarded := false
			for _, e := range an.DominatingConds(st.Block()) {
				b, isB := e.If.Cond.(*ssa.BinOp)
				if !isB || b.Op != token.EQL && b.Op != token.NEQ {
					continue
				}
				other := b.X
				if an.IsNilConst(b.X) {
					other = b.Y
				} else if !an.IsNilConst(b.Y) {
					continue
				}
				if ld, isLd := other.(*ssa.UnOp); isLd && ld.Op == token.MUL {
					if _, lf, _, ok := an.FieldOf(ld.X); ok && lf == "ListenConfig" && (b.Op == token.EQL) == e.Branch {
						guarded = true
					}
				}
			}
			c.Check(guarded, rule, k+" replaces ListenConfig only when none was given", st.Pos(), "the store is made under ListenConfig == nil",
				"ListenConfig is overwritten at "+c.Pos(st.Pos())+" without a test that the caller gave none: the limiting (and socket-option) ListenConfig that dnssvc passes is thrown away, and the server's stream listener is outside the connection limit")
		})
	}
	return examined
}
