package rules

import (
	"fmt"
	"go/token"
	"go/types"
	"os"
	"path/filepath"
	"reflect"
	"regexp"
	"sort"
	"strconv"
	"strings"

	"adgverif/an"

	"golang.org/x/tools/go/ssa"
)

func init() {
	register(&Property{ID: "C15", Technique: "decision-tree extraction of recordQueryInfo with effect and field tables; who-may-call rule for the log and billing sinks; dominance of the record step by the successful write; single-append-write and use-after-Put rules for the log writer; sum-type exhaustiveness",
		Run: runC15, Explain: an.Explanation{
			Text: "R1: the decision tree of mainmw.recordQueryInfo: billing is recorded exactly when the request has a profile, with that " +
				"device's ID; the query log is written exactly when in addition the profile has query logging enabled; the entry's client " +
				"address is the request's remote IP only when the profile has IP logging enabled and the zero address otherwise; name, " +
				"type, protocol, response code, profile, device and verdicts of the entry come from this invocation's request, " +
				"filtering context and the response actually written. R2: the query-log writer and the billing recorder are invoked " +
				"from recordQueryInfo only, and recordQueryInfo is reached only after the main middleware's successful WriteMsg (so " +
				"rate-limited, access-blocked and failed requests never reach it). R3: FileSystem.Write opens the log append-only, " +
				"encodes the entry into the pooled buffer (never into the file), writes the file exactly once from that buffer, and " +
				"does not use the buffer after returning it to the pool. R4: the switches that map filtering results to log codes " +
				"name every result type or end in a panicking default. R6: the conversions from the backend and from the file cache " +
				"copy QueryLogEnabled and IPLogEnabled from the fields of the same name, and newRequestInfo re-initialises every " +
				"field of the pooled request information on every path, so a request never inherits the previous request's profile.",
			NotCovered: "JSON well-formedness of arbitrary field contents (encoding/json trusted); atomicity of O_APPEND writes in the kernel.",
			Rules: map[string]string{"C15-R26": "processDNSRewriteRules reports the rule that decided the outcome (table shared with C02-R4): the rule text in the log entry is the deciding rule's, not that of the first matching rule", "C15-R25": "the name given to the profile's access rule engine is the normalised query name (shared with C10-R4): a query the profile's access settings forbid is not answered and logged because it was sent in upper case", "C15-R24": "DefaultProfile.IsBlocked consults the address rules and the domain rules (table shared with C10-R1): a query the profile's access settings forbid is not answered and logged because its client is in the allowlist", "C15-R23": "the upstream answer is disposed of only after the query has been recorded (shared with C07-R3): the entry's response country is read from this request's answer; the requester's own location is not replaced by the location of its ECS subnet (table shared with C05-R5)", "C15-R22": "profiledb.CreateAutoDevice creates a device only for a known profile that has automatic devices enabled (table shared with C03-R16)", "C15-R21": "hostsRulesToResult names the hosts-file rule of the question's own family (table shared with C02-R4): the logged rule is the one that decided this request; R22: CreateAutoDevice is refused for a profile with automatic devices off (table shared with C03-R16), so no query is attributed to and logged for a profile that did not ask for it", "C15-R20": "the query-log entry and its documentation doc/querylog.md agree: the json tags of querylog.jsonlEntry are exactly the documented property names, the result codes are the documented values of `f`, and the protocol constants are the documented values of `p`", "C15-R18": "a $dnsrewrite verdict is stamped with the ID of the list it came from (composite filter table, shared with C02-R3)", "C15-R19": "newFilteringContext resets every field of the pooled filtering context, so no request is resolved or logged under an earlier request's rewritten name (shared with C01-R15)", "C15-R16": "setFilteredResponse answers by the request verdict whenever there is one, which is also the verdict the log entry names (shared with C02-R6)", "C15-R17": "responseData reports the response's own response code (all bits, extended codes included) and AD flag", "C15-R15": "newDeviceFinder: the real finder exactly when the server group has profiles enabled", "C15-RC": "class rules (error chains, shadowed results, character classes, crossed arguments, pool constructors, array pools, loop completeness, loop-carried buffers, replacing setters, complete clones, Grow arithmetic, pooled-buffer escape, sorted searches, fresh decode targets, per-iteration objects, whole-message copies, codec guards) over the packages this property rests on", "C15-R14": "profile lookups by linked / dedicated IP re-check the device's current address; isBlockedByAccess returns the profile's verdict (shared with C14-R4, C10-R1)", "C15-R13": "no named (non-error) result is hidden by a same-typed short variable declaration and then returned by name outside that scope (typed-AST rule over the whole repository)", "C15-R12": "no whole-struct copy of a dns.Msg (the copy shares Question and the RR slices with the logged request); pool constructors build fresh buffers", "C15-R11": "clone methods of filtering results copy every field (list and rule IDs are what gets logged)", "C15-R1": "recordQueryInfo gates and entry provenance", "C15-R2": "sole callers of log/billing sinks; record only after the write",
				"C15-R3": "single append write from the pooled buffer", "C15-R4": "result switches exhaustive", "C15-R5": "every field of the entry is written",
				"C15-R6": "the logging opt-in flags are copied name-to-name by the backend and file-cache conversions; the recycled request-information object (which carries the profile attribution) is fully re-initialised"},
		}})
}

func runC15(c *an.Ctx) {
	c.Floor("C15-R26", 1)
	c.Borrow("C15-R26", runC02, func(o an.Obligation) bool { return o.Rule == "C02-R4" && strings.Contains(o.Key, "processDNSRewriteRules") })
	c.Floor("C15-R25", 1)
	c.Borrow("C15-R25", runC10, func(o an.Obligation) bool { return o.Rule == "C10-R4" })
	c.Floor("C15-R24", 1)
	c.Borrow("C15-R24", runC10, func(o an.Obligation) bool { return o.Rule == "C10-R1" })
	// ---- R23: the logged data is this request's (shared with C07-R3 and C05-R5)
	c.Floor("C15-R23", 2)
	c.Borrow("C15-R23", runC07, func(o an.Obligation) bool { return o.Rule == "C07-R3" && strings.Contains(o.Key, "mainmw") })
	c.Borrow("C15-R23", runC05, func(o an.Obligation) bool {
		return o.Rule == "C05-R5" && strings.Contains(o.Key, "Middleware).location")
	})
	// ---- R21: the logged hosts rule is this request's (shared with C02-R4); R22: automatic devices only where enabled (shared with C03-R16)
	c.Floor("C15-R21", 1)
	c.Borrow("C15-R21", runC02, func(o an.Obligation) bool { return o.Rule == "C02-R4" && strings.Contains(o.Key, "hostsRulesToResult") })
	c.Floor("C15-R22", 1)
	c.Borrow("C15-R22", runC03, func(o an.Obligation) bool { return o.Rule == "C03-R16" && strings.Contains(o.Key, "CreateAutoDevice") })
	// ---- R20: the entry format is the documented one
	c.Floor("C15-R20", 3)
	c15DocumentedFormat(c, "C15-R20")
	classSweep(c, "C15")
	// ---- R18: a verdict names the list its rule came from (composite tables, shared with C02-R3); R19: the pooled
	// filtering context starts every request empty (shared with C01-R15)
	c.Floor("C15-R18", 1)
	c.Borrow("C15-R18", runC02, func(o an.Obligation) bool {
		return o.Rule == "C02-R3" && strings.Contains(o.Key, "filterReqWithRuleLists")
	})
	c.Floor("C15-R19", 1)
	c.Borrow("C15-R19", runC01, func(o an.Obligation) bool {
		return o.Rule == "C01-R15" && strings.Contains(o.Key, "newFilteringContext")
	})
	// ---- R16: the verdict that is logged is the verdict that shaped the answer (request verdict first; shared with C02-R6);
	// R17: the response code and the AD flag in the entry are the response's own, unmasked
	c.Floor("C15-R16", 1)
	c.Borrow("C15-R16", runC02, func(o an.Obligation) bool {
		return o.Rule == "C02-R6" && strings.Contains(o.Key, "setFilteredResponse")
	})
	c.Floor("C15-R17", 1)
	decide(c, "C15-R17", "dnssvc/internal/mainmw.(*Middleware).responseData", an.DecideCfg{
		Dom: an.Domain{"p2": an.NilOrNot, "iperr": an.Bools},
		OnCall: func(it *an.Interp, name string, args []an.AV) (an.AV, bool) {
			switch {
			case strings.HasSuffix(name, "mainmw.ipFromAnswer"):
				e := an.Nil()
				if it.Feature("iperr").IsTrue() {
					e = an.NonNil("ipErr")
				}
				return an.AV{Kind: an.KTuple, Tup: []an.AV{an.Sym("ip"), e}}, true
			case strings.HasSuffix(name, "errcoll.Collect"):
				return an.Nil(), true
			}
			return an.AV{}, false
		},
		Expect: func(f an.Features, o an.AOutcome) string {
			if len(o.Ret) != 3 {
				return "three results"
			}
			if f.IsNil("p2") {
				if o.Ret[0].String() != "255" {
					return "the unassigned code 0xff without a response; got " + o.RetString()
				}
				return ""
			}
			rc := o.Ret[0].String()
			if !strings.Contains(rc, "p2.MsgHdr.Rcode") || strings.ContainsAny(rc, "&|%") || !strings.Contains(o.Ret[2].String(), "p2.MsgHdr.AuthenticatedData") {
				return "the response's own Rcode (converted, not masked) and AD flag; got " + o.RetString()
			}
			return ""
		},
	})
	dnssvcWiring(c, "C15-R10", func(dst, src string) bool {
		n := normName(dst) + " " + normName(src)
		return strings.Contains(n, "querylog") || strings.Contains(n, "billstat")
	}, 2)
	// ---- C15-R10: builder wiring of the components this property rests on
	c.Floor("C15-R10", 3)
	builderWiring(c, "C15-R10", map[string][]string{
		"initDNS|dnssvc.HandlersConfig":      {"QueryLog", "BillStat", "ProfileDB"},
		"queryLog|querylog.FileSystemConfig": nil,
	})
	// ---- R9: a request is served (and therefore logged and billed) at most once; a deleted profile replaces the live record at once
	c.Floor("C15-R9", 3)
	c.Borrow("C15-R9", runC09, func(o an.Obligation) bool { return o.Rule == "C09-R1" })
	c.Borrow("C15-R9", runC14, func(o an.Obligation) bool {
		return o.Rule == "C14-R8" && (strings.Contains(o.Key, "setProfiles") || strings.Contains(o.Key, ").Refresh") || strings.Contains(o.Key, "fetchProfiles"))
	})
	// ---- R8: what makes a query anonymous or dropped: deleted profiles are not found; the access check sees the client's location
	c.Floor("C15-R8", 2)
	c.Borrow("C15-R8", runC03, func(o an.Obligation) bool { return o.Rule == "C03-R1" })
	c.Borrow("C15-R8", runC10, func(o an.Obligation) bool { return o.Rule == "C10-R2" && strings.Contains(o.Key, "Wrap$1") })
	c.Inf("C15-R6", "hand-off sweep", token.NoPos, "%d hand-offs of a fresh object to a function that keeps it examined in dnssvc and cmd",
		sharedRetainedArgs(c, "C15-R6", "dnssvc.", "cmd."))
	// ---- R11: a filtering result cloned for a request keeps the list and rule that produced it (they are what is logged)
	if n := sharedCloneComplete(c, "C15-R11", nil, "filter/internal.", "filter.", "agd.", "dnsmsg."); n >= 2 {
		c.Ok("C15-R11", "clone methods of results and messages copy every field", token.NoPos, "%d clone methods examined", n)
	} else {
		c.Und("C15-R11", "clone methods of results and messages copy every field", token.NoPos, "only %d clone methods found", n)
	}
	// ---- R12: the request that is logged is never modified through a shallow copy of its message (a copy of a dns.Msg
	// shares the question slice); pool constructors of the log's buffers build fresh buffers
	c.Inf("C15-R12", "whole-message copies", token.NoPos, "%d whole-struct copies of dns.Msg examined outside package dnsmsg", sharedNoShallowCopy(c, "C15-R12", "", "github.com/miekg/dns.Msg"))
	if n := sharedPoolNewFresh(c, "C15-R12"); n < 10 {
		c.Und("C15-R12", "pool constructors", token.NoPos, "only %d pool constructors found", n)
	}
	// ---- R13: a verdict computed into a named result is not lost to a shadowing := (a blocked query that is reported
	// as not blocked is served, billed and logged)
	if n := sharedShadowedResult(c, "C15-R13", "dnssvc", "access", "profiledb", "querylog", "billstat", "filter", "dnsmsg", "ecscache", "geoip", "agd", "backendpb", "connlimiter", "websvc", "cmd", "dnsserver"); n < 100 {
		c.Und("C15-R13", "named results", token.NoPos, "only %d functions with named results found", n)
	} else {
		c.Ok("C15-R13", "no named result is hidden by a same-typed := and then returned by name", token.NoPos, "%d functions with named results examined", n)
	}
	// ---- R14: who a query is attributed to, and whether it is dropped by the profile's access settings (shared tables)
	c.Floor("C15-R14", 3)
	c14Lookups(c, "C15-R14")
	c.Borrow("C15-R14", runC10, func(o an.Obligation) bool { return o.Rule == "C10-R1" && strings.Contains(o.Key, "isBlockedByAccess") })
	c.Floor("C15-R7", 1)
	c15DeviceFinderGate(c)
	mainPipeline(c, "C15-R7")
	c.Floor("C15-R1", 1)
	c.Floor("C15-R2", 3)
	c.Floor("C15-R3", 4)
	c.Floor("C15-R4", 3)
	c.Floor("C15-R6", 8)
	// ---- R6: the opt-in flags survive conversions and object recycling
	c14CodecNames(c, "C15-R6", func(dst, src string) bool {
		n := normName(dst) + " " + normName(src)
		return strings.Contains(n, "querylogenabled") || strings.Contains(n, "iplogenabled")
	}, 4)
	sharedPoolInit(c, "C15-R6", "dnssvc/internal/ratelimitmw.(*Middleware).newRequestInfo")

	// ---- R1
	decide(c, "C15-R1", "dnssvc/internal/mainmw.(*Middleware).recordQueryInfo", an.DecideCfg{
		Dom: an.Domain{"prof": an.NilOrNot, "prof.QueryLogEnabled": an.Bools, "prof.IPLogEnabled": an.Bools, "blocked": an.Bools,
			"p3.Location": {an.Nil(), an.NonNil("loc")}},
		OnCall: func(it *an.Interp, name string, args []an.AV) (an.AV, bool) {
			switch {
			case strings.HasSuffix(name, "mainmw.filteringData"):
				return an.AV{Kind: an.KTuple, Tup: []an.AV{an.Sym("listid"), an.Sym("ruletext"), it.Feature("blocked")}}, true
			case strings.HasSuffix(name, "(*agd.RequestInfo).DeviceData"):
				if args[0].String() != "p3" {
					return an.Sym("device data of another request"), true
				}
				p := it.Feature("prof")
				if p.Kind == an.KNonNil {
					p.Key = "prof"
				}
				return an.AV{Kind: an.KTuple, Tup: []an.AV{p, an.NonNil("dev")}}, true
			case strings.HasSuffix(name, "MustRequestInfoFromContext"):
				return an.NonNil("sri"), true
			case strings.HasSuffix(name, ").responseData"):
				k := "respdata(" + args[2].String() + ")"
				return an.AV{Kind: an.KTuple, Tup: []an.AV{an.Sym(k + ".rcode"), an.Sym(k + ".ip"), an.Sym(k + ".dnssec")}}, true
			case strings.HasSuffix(name, ").responseCountry"):
				return an.Sym("respctry"), true
			case name == "p0.queryLog.Write":
				return an.Nil(), true
			case name == "time.Since":
				return an.Sym("elapsed"), true
			}
			return an.AV{}, false
		},
		Expect: func(f an.Features, o an.AOutcome) string {
			var bills, logs []string
			for _, e := range o.Effects {
				if e.Kind != "call" {
					continue
				}
				if e.Name == "p0.billStat.Record" {
					bills = append(bills, strings.Join(e.Args, ","))
				}
				if e.Name == "p0.queryLog.Write" {
					logs = append(logs, e.Args[1])
				}
			}
			if f.IsNil("prof") {
				if len(bills) == 0 && len(logs) == 0 {
					return ""
				}
				return "neither billing nor logging for a request without a profile"
			}
			ctry, asn := `""`, "0"
			if !f.IsNil("p3.Location") {
				ctry, asn = "loc.Country", "loc.ASN"
			}
			wantBill := "p1,dev.ID," + ctry + "," + asn + ",sri.StartTime,p3.Proto"
			if len(bills) != 1 || bills[0] != wantBill {
				return "exactly one billing record (" + wantBill + "); got " + fmt.Sprint(bills)
			}
			if !f.B("prof.QueryLogEnabled") {
				if len(logs) == 0 {
					return ""
				}
				return "no log entry when the profile has query logging disabled"
			}
			if len(logs) != 1 || !strings.HasPrefix(logs[0], "&local#") {
				return "exactly one log entry"
			}
			k := strings.TrimPrefix(logs[0], "&")
			ip := "zero:net/netip.Addr"
			if f.B("prof.IPLogEnabled") {
				ip = "p3.RemoteIP"
			}
			want := map[string]string{
				"RemoteIP": ip, "ProfileID": "prof.ID", "DeviceID": "dev.ID", "RequestType": "p3.QType", "Protocol": "p3.Proto",
				"ResponseCode": "respdata(p2.filteredResponse).rcode", "DNSSEC": "respdata(p2.filteredResponse).dnssec",
				"RequestResult": "p2.requestResult", "ResponseResult": "p2.responseResult", "RequestID": "p3.ID",
				"DomainFQDN": "p2.originalRequest.Question[0].Name", "Time": "sri.StartTime", "ClientCountry": ctry, "ClientASN": asn,
			}
			var names []string
			for n := range want {
				names = append(names, n)
			}
			sort.Strings(names)
			for _, n := range names {
				got := o.Mem[k+"."+n].String()
				if got != want[n] && !(got == "" && want[n] == `""`) {
					if n == "RemoteIP" && !f.B("prof.IPLogEnabled") && (got == "zero" || strings.HasPrefix(got, "zero")) {
						continue
					}
					return fmt.Sprintf("entry.%s = %s; got %s", n, want[n], got)
				}
			}
			return ""
		},
	})

	// ---- R2
	sinks := map[string]bool{"(querylog.Interface).Write": true, "(billstat.Recorder).Record": true}
	for _, fn := range c.AllFns {
		if c.IsTestFile(fn.Pos()) {
			continue
		}
		if pk := an.FnPkg(fn); pk != nil && strings.HasSuffix(pk.Path(), "test") {
			continue
		}
		for _, call := range an.Calls(fn) {
			n := an.Short(an.CalleeName(call))
			if !sinks[n] {
				continue
			}
			key := an.FnKey(fn) + " calls " + n
			c.Check(an.FnKey(fn) == "dnssvc/internal/mainmw.(*Middleware).recordQueryInfo", "C15-R2", key, call.Pos(),
				"the only caller of this sink", "the query log / billing recorder is invoked outside recordQueryInfo: a request can be logged or billed without its gates")
		}
	}
	if rec := c.Fn("dnssvc/internal/mainmw.(*Middleware).recordQueryInfo"); rec != nil {
		sites := c.Callers(rec)
		if len(sites) == 0 {
			c.Und("C15-R2", "recordQueryInfo callers", rec.Pos(), "no caller found")
		}
		for _, s := range sites {
			if s.Call == nil {
				continue
			}
			fn := s.Call.Parent()
			key := an.FnKey(fn) + " -> recordQueryInfo"
			ok := false
			for _, w := range an.Calls(fn) {
				cc := w.Common()
				if cc.IsInvoke() && cc.Method.Name() == "WriteMsg" {
					if wc, isCall := w.(*ssa.Call); isCall {
						for _, e := range an.DominatingConds(s.Call.Block()) {
							if an.ErrNonNilEdgeOf(an.CondEdge{If: e.If, Branch: !e.Branch}, wc) {
								ok = true
							}
						}
					}
				}
			}
			c.Check(ok, "C15-R2", key, s.Call.Pos(), "recordQueryInfo is dominated by the success edge of the response write",
				"recordQueryInfo can run although no response was written (dropped or failed requests would be logged and billed)")
		}
	}

	// ---- R3
	if fn := c.Fn("querylog.(*FileSystem).Write"); fn == nil {
		c.Und("C15-R3", "querylog.(*FileSystem).Write", token.NoPos, "anchor not found")
	} else {
		c.Analysed(an.FnKey(fn))
		var open, enc, put *ssa.Call
		var putInstr ssa.CallInstruction
		var fileWrites []ssa.CallInstruction
		for _, call := range an.Calls(fn) {
			n := an.Short(an.CalleeName(call))
			cv, _ := call.(*ssa.Call)
			switch {
			case n == "os.OpenFile":
				open = cv
			case n == "encoding/json.NewEncoder":
				enc = cv
			case isPoolPut(call):
				putInstr = call
				put = cv
			}
			// any call that receives the *os.File as writer
			for _, a := range call.Common().Args {
				if an.TypeName(a.Type()) == "os.File" && n != "(*os.File).Close" && n != "os.OpenFile" {
					fileWrites = append(fileWrites, call)
				}
				if mi, ok := a.(*ssa.MakeInterface); ok && an.TypeName(mi.X.Type()) == "os.File" {
					fileWrites = append(fileWrites, call)
				}
			}
		}
		_ = put
		// flags
		okFlags := false
		if open != nil {
			if flags, ok := an.ConstInt(open.Call.Args[1]); ok {
				oAppend, _ := c.ConstInt("os", "O_APPEND")
				oTrunc, _ := c.ConstInt("os", "O_TRUNC")
				okFlags = flags&oAppend != 0 && flags&oTrunc == 0
			}
		}
		c.Check(okFlags, "C15-R3", "FileSystem.Write open flags", fn.Pos(), "the log file is opened with O_APPEND and without O_TRUNC",
			"the log file is not opened append-only: concurrent writers overwrite each other")
		// encoder target is the pooled buffer, not the file
		okEnc := enc != nil
		if enc != nil {
			if mi, ok := enc.Call.Args[0].(*ssa.MakeInterface); ok && an.TypeName(mi.X.Type()) == "os.File" {
				okEnc = false
			}
		}
		c.Check(okEnc, "C15-R3", "FileSystem.Write encoder target", fn.Pos(), "the entry is encoded into the pooled buffer",
			"the JSON encoder writes straight into the file: one entry becomes several write calls that interleave with other writers")
		// exactly one write to the file, from the buffer
		okOne := len(fileWrites) == 1 && an.Short(an.CalleeName(fileWrites[0])) == "(*bytes.Buffer).WriteTo" && !an.CanReach(fileWrites[0], fileWrites[0])
		c.Check(okOne, "C15-R3", "FileSystem.Write single write", fn.Pos(), "the file receives exactly one write, (*bytes.Buffer).WriteTo of the pooled buffer",
			fmt.Sprintf("the file must receive exactly one write from the pooled buffer (found %d writer calls)", len(fileWrites)))
		// the buffer is not used after Put
		if putInstr == nil {
			c.Und("C15-R3", "FileSystem.Write buffer release", fn.Pos(), "pool Put not found")
		} else if _, isDefer := putInstr.(*ssa.Defer); isDefer {
			c.Ok("C15-R3", "FileSystem.Write buffer release", putInstr.Pos(), "the buffer is returned to the pool by a defer, after its last use")
		} else if use := useAfter(c, putInstr, putInstr.Common().Args[len(putInstr.Common().Args)-1]); use != nil {
			c.Bad("C15-R3", "FileSystem.Write buffer release", putInstr.Pos(), "the pooled entry buffer is used at %s after it was returned to the pool: a concurrent writer re-encodes into it while it is being written", c.Pos(use.Pos()))
		} else {
			c.Ok("C15-R3", "FileSystem.Write buffer release", putInstr.Pos(), "no use of the buffer after Put")
		}
	}

	// ---- R5: every field of the entry reaches the JSON line
	c.Floor("C15-R5", 10)
	if fn := c.Fn("querylog.(*FileSystem).Write"); fn != nil {
		read := map[string]bool{}
		an.Instrs(fn, func(in ssa.Instruction) {
			if fa, ok := in.(*ssa.FieldAddr); ok {
				if typ, f, _, ok := an.FieldOf(fa); ok && typ == "querylog.Entry" {
					read[f] = true
				}
			}
		})
		if t := c.TypeByString("querylog.Entry"); t != nil {
			st := t.Underlying().(*types.Struct)
			for i := 0; i < st.NumFields(); i++ {
				f := st.Field(i).Name()
				c.Check(read[f], "C15-R5", "querylog.Entry."+f, st.Field(i).Pos(), "read by FileSystem.Write", "the log writer never reads this field of the entry: the line does not describe that aspect of its request")
			}
		}
	}

	// ---- R4 exhaustive switches over filter.Result
	checkSumSwitch(c, "C15-R4", "querylog.toResultCode", "filter/internal.Result")
	code := func(n string) int64 { v, _ := c.ConstInt("querylog", n); return v }
	decide(c, "C15-R4", "querylog.toResultCode", an.DecideCfg{
		Dom: an.Domain{"type(p0)": append(an.Strs("*filter/internal.ResultAllowed", "*filter/internal.ResultBlocked",
			"*filter/internal.ResultModifiedRequest", "*filter/internal.ResultModifiedResponse"), an.Nil()), "p1": an.Bools},
		Expect: func(f an.Features, o an.AOutcome) string {
			var want int64
			t := ""
			if !f.IsNil("type(p0)") {
				t = f.S("type(p0)")
			}
			switch t {
			case "":
				want = code("resultCodeNone")
			case "*filter/internal.ResultAllowed":
				want = code("resultCodeReqAllowed")
				if f.B("p1") {
					want = code("resultCodeRespAllowed")
				}
			case "*filter/internal.ResultBlocked":
				want = code("resultCodeReqBlocked")
				if f.B("p1") {
					want = code("resultCodeRespBlocked")
				}
			default:
				want = code("resultCodeModified")
			}
			if o.RetString() == fmt.Sprint(want) {
				return ""
			}
			return fmt.Sprintf("documented code %d for %s (response=%v)", want, t, f.B("p1"))
		},
	})
	decide(c, "C15-R4", "querylog.resultData", an.DecideCfg{
		Dom: an.Domain{"p0": an.NilOrNot, "p1": an.NilOrNot},
		OnCall: func(it *an.Interp, name string, args []an.AV) (an.AV, bool) {
			switch {
			case name == "querylog.toResultCode":
				return an.Sym("code(" + args[0].String() + "," + args[1].String() + ")"), true
			case strings.HasSuffix(name, ".MatchedRule"):
				r := strings.TrimSuffix(name, ".MatchedRule")
				return an.AV{Kind: an.KTuple, Tup: []an.AV{an.Sym("id(" + r + ")"), an.Sym("rule(" + r + ")")}}, true
			}
			return an.AV{}, false
		},
		Expect: func(f an.Features, o an.AOutcome) string {
			want := ""
			switch {
			case !f.IsNil("p0"):
				want = "code(nonnil:p0,false), id(nonnil:p0), rule(nonnil:p0)"
			case !f.IsNil("p1"):
				want = "code(nonnil:p1,true), id(nonnil:p1), rule(nonnil:p1)"
			default:
				want = `code(nil,true), "", ""`
			}
			if o.RetString() == want {
				return ""
			}
			return want + " (the request verdict takes precedence over the response verdict)"
		},
	})
}

// implementations returns the names (Short, with * for pointer receivers) of
// the repository types that implement the named interface.
func implementations(c *an.Ctx, iface string) (impls []string) {
	it := c.TypeByString(iface)
	if it == nil {
		return nil
	}
	i, ok := it.Underlying().(*types.Interface)
	if !ok {
		return nil
	}
	seen := map[string]bool{}
	for _, pkg := range c.Pkgs {
		_ = pkg
	}
	for _, fn := range c.AllFns {
		recv := fn.Signature.Recv()
		if recv == nil {
			continue
		}
		t := recv.Type()
		if types.Implements(t, i) {
			n := an.Short(types.TypeString(t, nil))
			if !seen[n] && !strings.HasSuffix(an.TypeName(t), "test") {
				seen[n] = true
				impls = append(impls, n)
			}
		}
	}
	sort.Strings(impls)
	return impls
}

// checkSumSwitch checks that the type switches of fnKey over values of the
// sealed interface iface name every implementation or end in a panic.
func checkSumSwitch(c *an.Ctx, rule, fnKey, iface string) {
	fn := c.Fn(fnKey)
	if fn == nil {
		c.Und(rule, fnKey, token.NoPos, "anchor not found")
		return
	}
	c.Analysed(fnKey)
	impls := implementations(c, iface)
	if len(impls) == 0 {
		c.Und(rule, fnKey, fn.Pos(), "no implementations of %s found", iface)
		return
	}
	asserted := map[string]bool{}
	panics := false
	an.Instrs(fn, func(in ssa.Instruction) {
		switch x := in.(type) {
		case *ssa.TypeAssert:
			if an.TypeName(x.X.Type()) == iface {
				asserted[an.Short(types.TypeString(x.AssertedType, nil))] = true
			}
		case *ssa.Panic:
			panics = true
		}
	})
	var missing []string
	for _, im := range impls {
		if !asserted[im] {
			missing = append(missing, im)
		}
	}
	if len(missing) == 0 || panics {
		c.Ok(rule, fnKey+" switch over "+iface, fn.Pos(), "names %d of %d implementations%s", len(impls)-len(missing), len(impls), map[bool]string{true: ", panicking default", false: ""}[panics])
	} else {
		c.Bad(rule, fnKey+" switch over "+iface, fn.Pos(), "the switch neither names %s nor panics on unknown results: such results are silently mapped to the default", strings.Join(missing, ", "))
	}
}

// c15DeviceFinderGate: a server gets the real device finder exactly when its
// server group has profiles enabled; the servers of a group without profiles
// never attribute (and so never log or bill) a query.
func c15DeviceFinderGate(c *an.Ctx) {
	c.Floor("C15-R15", 1)
	decide(c, "C15-R15", "dnssvc.newDeviceFinder", an.DecideCfg{
		Dom: an.Domain{"p1.ProfilesEnabled": an.Bools},
		OnCall: func(it *an.Interp, name string, args []an.AV) (an.AV, bool) {
			switch {
			case strings.HasSuffix(name, "devicefinder.NewDefault"):
				return an.NonNil("finder"), true
			case strings.HasSuffix(name, "slog.Logger).With"):
				return an.NonNil("logger"), true
			}
			return an.AV{}, false
		},
		Expect: func(f an.Features, o an.AOutcome) string {
			if len(o.Ret) != 1 {
				return "a finder"
			}
			if f.B("p1.ProfilesEnabled") {
				if o.Ret[0].String() != "nonnil:finder" {
					return "the default finder for a group with profiles; got " + o.RetString()
				}
				return ""
			}
			if o.Ret[0].Dyn != "agd.EmptyDeviceFinder" {
				return "the empty finder for a group without profiles, whatever the profile database is; got " + o.RetString() + " " + o.Ret[0].Dyn
			}
			return ""
		},
	})
}

// c15DocumentedFormat: the consumers of the query log read it by the names and
// numbers of doc/querylog.md.  The json tags of querylog.jsonlEntry are exactly
// the documented property names; the values of the resultCode constants are
// the documented values of "f"; the values of the dnsserver protocol constants
// are the documented values of "p".
func c15DocumentedFormat(c *an.Ctx, rule string) {
	data, err := os.ReadFile(filepath.Join(c.Prog.Repo, "doc", "querylog.md"))
	if err != nil {
		c.Und(rule, "doc/querylog.md", token.NoPos, "%v", err)
		return
	}
	doc := string(data)
	names := map[string]bool{}
	for _, m := range regexp.MustCompile(`id="properties-([a-z]+)"`).FindAllStringSubmatch(doc, -1) {
		names[m[1]] = true
	}
	// documented values of a property: the list items "- `N`:" between its anchor and the next anchor
	values := func(prop string) map[int64]bool {
		vs := map[int64]bool{}
		i := strings.Index(doc, `id="properties-`+prop+`"`)
		if i < 0 {
			return vs
		}
		rest := doc[i+1:]
		if j := strings.Index(rest, `id="properties-`); j >= 0 {
			rest = rest[:j]
		}
		for _, m := range regexp.MustCompile("(?m)^\\s*- `([0-9]+)`:").FindAllStringSubmatch(rest, -1) {
			n, _ := strconv.ParseInt(m[1], 10, 64)
			vs[n] = true
		}
		return vs
	}
	setStr := func(m map[string]bool) string {
		var ks []string
		for k := range m {
			ks = append(ks, k)
		}
		sort.Strings(ks)
		return strings.Join(ks, " ")
	}
	setInt := func(m map[int64]bool) string {
		var ks []int
		for k := range m {
			ks = append(ks, int(k))
		}
		sort.Ints(ks)
		return fmt.Sprint(ks)
	}
	// 1. property names
	pkg := c.Prog.SSA.ImportedPackage("github.com/AdguardTeam/AdGuardDNS/internal/querylog")
	if pkg == nil || pkg.Type("jsonlEntry") == nil {
		c.Und(rule, "querylog.jsonlEntry", token.NoPos, "type not found")
		return
	}
	tags := map[string]bool{}
	if st, ok := pkg.Type("jsonlEntry").Type().Underlying().(*types.Struct); ok {
		for i := 0; i < st.NumFields(); i++ {
			name, _, _ := strings.Cut(reflect.StructTag(st.Tag(i)).Get("json"), ",")
			if name != "" && name != "-" {
				tags[name] = true
			}
		}
	}
	c.Check(setStr(tags) == setStr(names) && len(tags) > 10, rule, "querylog.jsonlEntry: the json tags are the documented property names", pkg.Type("jsonlEntry").Pos(),
		"tags: "+setStr(tags), "the json tags of the entry are {"+setStr(tags)+"}, doc/querylog.md documents {"+setStr(names)+"}: a consumer that reads the log by the documented names misses or misreads a property")
	// 2. result codes and 3. protocols
	consts := func(p *ssa.Package, typeName, prefix string) map[int64]bool {
		vs := map[int64]bool{}
		if p == nil {
			return vs
		}
		for n, mem := range p.Members {
			if k, ok := mem.(*ssa.NamedConst); ok && strings.HasPrefix(n, prefix) && strings.HasSuffix(k.Type().String(), typeName) {
				vs[k.Value.Int64()] = true
			}
		}
		return vs
	}
	rc := consts(pkg, "querylog.resultCode", "resultCode")
	c.Check(setInt(rc) == setInt(values("f")) && len(rc) > 3, rule, "querylog.resultCode: the constants are the documented values of f", token.NoPos,
		"values: "+setInt(rc), "the result codes are "+setInt(rc)+", doc/querylog.md documents "+setInt(values("f"))+" for f")
	pr := consts(c.Prog.SSA.ImportedPackage("github.com/AdguardTeam/AdGuardDNS/internal/dnsserver"), "dnsserver.Protocol", "Proto")
	c.Check(setInt(pr) == setInt(values("p")) && len(pr) > 3, rule, "dnsserver.Protocol: the constants are the documented values of p", token.NoPos,
		"values: "+setInt(pr), "the protocol constants are "+setInt(pr)+", doc/querylog.md documents "+setInt(values("p"))+" for p")
}
