package rules

import (
	"fmt"
	"go/constant"
	"go/token"
	"go/types"
	"strings"

	"adgverif/an"

	"golang.org/x/tools/go/ssa"
)

func init() {
	register(&Property{ID: "C11", Technique: "decision-tree extraction (abstract interpretation with one or two abstract list elements) of the type gates, the prefix-length table and the TXT responder; writer/reader agreement of the digest split constants",
		Run: runC11, Explain: an.Explanation{
			Text: "R1: isFilterable and the safe-search gate accept exactly A, AAAA and HTTPS questions. R2: prefixesFromStr keeps " +
				"four-character prefixes, truncates eight-character ones to their first four, and rejects every other length (and " +
				"undecodable text) with an error. R3: the TXT responder answers REFUSED built from this request and does not call " +
				"the next stage when the matcher fails; passes non-hash queries through; and otherwise answers with exactly the " +
				"hashes the matcher returned. R4: Storage.Reset, Matches and Hashes split the digest at the same constant " +
				"(PrefixLen, and twice that in the hex encoding), and the hash-prefix filter installs new data before clearing its " +
				"cache (shared with C12-R3). R5: Matches, Hashes and Reset each read the atomically published suffix map at most " +
				"once on every path, so one answer is computed from one list version. R6: the hash-prefix result cache, which is " +
				"consulted before the question-type gate, is keyed injectively by host, type, class and direction.",
			NotCovered: "EQUALITY WITH THE SHA-256 SET MODEL (that Matches/Hashes return exactly the listed names' hashes) and THE PUBLIC-SUFFIX / FOUR-LABEL CUT of hashableSubdomains: " +
				"hash and string computations outside static reach.",
			Rules: map[string]string{"C11-R30": "the pooled filter request is given this request's host, type and class on every path (shared with C07-R1): a listed host is not looked up under the question type of the previous request that used the object", "C11-R29": "NewAnswerTXT builds the record from the whole strings parameter: every matched hash is in the answer (or the call fails); none is silently cut off", "C11-R28": "the HTTP client that downloads the lists sets only Content-Type, X-Request-Id and User-Agent: it never sets Accept-Encoding itself, which would switch off the transport's decompression and put compressed bytes into the cache file and the hash storage", "C11-R27": "a cached block-page response is always re-targeted at the request that hits the cache (hashprefix clonedResult returns CloneForReq for a ResultModifiedResponse on every path): ID, question and flags are this client's, so the client does not discard the answer", "C11-R26": "cloned address records own their address bytes (shared with C12-R9): a later answer built in the pooled record does not overwrite the block-page answer held in the filter's cache", "C11-R25": "the pooled filtering context of mainmw is reset as a whole before use (shared with C01-R15): a rewritten request of an earlier, listed host is not applied to a later, unlisted one", "C11-R24": "a blocked answer for an HTTPS question is built under every blocking mode (constructor tables shared with C02-R6): a listed host is not passed as clean because the answer could not be built; R25: the pooled filtering context starts every request empty (shared with C01-R15)", "C11-R23": "the file-cache codec converts the parental switches (adult blocking, safe search) field to the field of the same name in both directions (shared with C14-R6)", "C11-R22": "rule-list keys from the index cannot name the cache file of a hash-prefix filter or another component (shared with C13-R18)", "C11-R21": "prefixesFromStr decodes the whole prefix string before it cuts a legacy eight-character prefix to four characters (a malformed tail is refused)", "C11-R20": "pre-service middleware: a TXT question of any class is handled by respondWithHashes alone, every other question by the DNS check", "C11-R18": "setSafeBrowsing and setParental install every selected safety filter under its own switch (tables shared with C02-R26)", "C11-R19": "agdnet.NormalizeDomain lower-cases every ASCII letter of the name that is hashed (shared with C10-R12)", "C11-R17": "builder: the TXT matcher is created after the filters have registered their storages", "C11-R16": "hash-prefix result cache: collision check on the stored host (shared with C12-R6)", "C11-RC": "class rules (error chains, shadowed results, character classes, crossed arguments, pool constructors, array pools, loop completeness, loop-carried buffers, replacing setters, complete clones, Grow arithmetic, pooled-buffer escape, sorted searches, fresh decode targets, per-iteration objects, whole-message copies, codec guards) over the packages this property rests on", "C11-R15": "list sources are read through readers that fail at the size limit, never through one that cuts silently (shared with C13-R7)", "C11-R14": "hash-prefix result cache stores clones and hands out clones (shared with C07-R4)", "C11-R1": "question-type gates", "C11-R2": "prefix length table", "C11-R3": "refuse, not forward", "C11-R4": "digest split agreement",
				"C11-R13": "(*Storage).Matches compares the digest with every suffix of its bucket (a range loop left early only by the hit); binary searches need a sorted-data discipline (shared rule, also run over bindtodevice's index as the positive instance)",
				"C11-R7":  "hashprefix.Filter.FilterRequest: cache first; then the type gate; then every candidate name (host and parents) is matched in order until the first hit; a hit is answered with the replacement built for this request and cached under this request's key",
				"C11-R11": "builder wiring of the three hash-prefix filters: each filter's ID, cache file, hash storage, list URL and target field belong to the same list (two lists never share a cache file or a storage)",
				"C11-R9":  "every name hashed by Storage.Reset comes from a line source that removes the whole line terminator (bufio.Scanner's line splitting, or an explicit trim): a carriage return left on the name changes its hash",
				"C11-R5":  "each Storage method reads the atomically published hash set at most once per path (one list version per answer)",
				"C11-R6":  "result-cache key is an injective packing of host, question type, class and direction (a collision lets a non-A/AAAA/HTTPS question hit a filtered entry)"},
		}})
}

func runC11(c *an.Ctx) {
	c.Floor("C11-R30", 3)
	c.Borrow("C11-R30", runC07, func(o an.Obligation) bool { return o.Rule == "C07-R1" && strings.Contains(o.Key, "reqInfoToFltReq") })
	c.Floor("C11-R29", 1)
	c11TXTAllStrings(c, "C11-R29")
	c.Floor("C11-R28", 3)
	if n := c11ClientHeaders(c, "C11-R28"); n < 3 {
		c.Und("C11-R28", "header sets", 0, "%d header sets found, 3 expected", n)
	}
	// ---- R27: cached responses are re-targeted at the asking request
	c.Floor("C11-R27", 1)
	c11CachedResponseForReq(c, "C11-R27")
	// ---- R26: cloned address records own their bytes (shared with C12-R9)
	c.Floor("C11-R26", 1)
	c.Borrow("C11-R26", runC12, func(o an.Obligation) bool {
		return o.Rule == "C12-R9" && (strings.Contains(o.Key, "newANetIP") || strings.Contains(o.Key, "newAAAANetIP"))
	})
	// ---- R24: blocked answers for every question type (shared with C02-R6); R25: pooled filtering context (shared with C01-R15)
	c.Floor("C11-R24", 1)
	c.Borrow("C11-R24", runC02, func(o an.Obligation) bool {
		return o.Rule == "C02-R6" && strings.Contains(o.Key, "newBlockedCustomIPResp")
	})
	c.Floor("C11-R25", 1)
	c.Borrow("C11-R25", runC01, func(o an.Obligation) bool {
		return o.Rule == "C01-R15" && strings.Contains(o.Key, "newFilteringContext")
	})
	// ---- R22: reserved rule-list keys (shared with C13-R18); R23: parental switches converted name-to-name by the file-cache codec (shared with C14-R6)
	c.Floor("C11-R22", 1)
	c.Borrow("C11-R22", runC13, func(o an.Obligation) bool { return o.Rule == "C13-R18" })
	c.Floor("C11-R23", 1)
	c.Borrow("C11-R23", runC14, func(o an.Obligation) bool { return o.Rule == "C14-R6" && strings.Contains(o.Key, "Parental") })
	classSweep(c, "C11")
	// ---- R21: a legacy prefix is validated as a whole before its tail is cut off
	c.Floor("C11-R21", 1)
	c11WholePrefixValidated(c, "C11-R21")
	// ---- R20: every TXT question reaches the hash-prefix responder, whatever its class
	c.Floor("C11-R20", 1)
	c11PreserviceDispatch(c, "C11-R20")
	// ---- R18: the safety filters a profile selected are all installed, each under its own switch (tables shared with C02-R26);
	// R19: the name that is hashed is lower-cased over the whole ASCII range (shared with C10-R12)
	c.Floor("C11-R18", 2)
	c.Borrow("C11-R18", runC02, func(o an.Obligation) bool {
		return o.Rule == "C02-R26" && (strings.Contains(o.Key, "setSafeBrowsing") || strings.Contains(o.Key, "setParental"))
	})
	c.Floor("C11-R19", 1)
	c.Borrow("C11-R19", runC10, func(o an.Obligation) bool { return o.Rule == "C10-R12" })
	dnssvcWiring(c, "C11-R12", func(dst, src string) bool {
		n := normName(dst) + " " + normName(src)
		return strings.Contains(n, "hashmatcher")
	}, 1)
	// ---- C11-R12: builder wiring of the components this property rests on
	c.Floor("C11-R12", 10)
	builderWiring(c, "C11-R12", map[string][]string{
		"initDNS|dnssvc.HandlersConfig":                           {"HashMatcher", "FilterStorage"},
		"initFilterStorage|filter/filterstorage.ConfigHashPrefix": nil,
		"initSafeBrowsing|filter/hashprefix.FilterConfig":         {"ReplacementHost", "Cloner"},
		"initAdultBlocking|filter/hashprefix.FilterConfig":        {"ReplacementHost", "Cloner"},
		"initNewRegDomains|filter/hashprefix.FilterConfig":        {"ReplacementHost", "Cloner"},
		"initSafeBrowsing|agdservice.RefreshWorkerConfig":         {"Refresher"},
		"initAdultBlocking|agdservice.RefreshWorkerConfig":        {"Refresher"},
		"initNewRegDomains|agdservice.RefreshWorkerConfig":        {"Refresher"},
	})
	c11BuilderWiring(c)
	// ---- R10: an oversized, truncated or non-200 list download never replaces the list (shared with C13-R1)
	c.Floor("C11-R10", 3)
	c.Borrow("C11-R10", runC13, func(o an.Obligation) bool { return o.Rule == "C13-R1" })
	c11LineSource(c)
	// ---- R8: the safe-browsing filters are consulted unless the profile's own rules allow the host
	c.Floor("C11-R8", 1)
	c.Borrow("C11-R8", runC02, func(o an.Obligation) bool { return o.Rule == "C02-R2" })
	c.Floor("C11-R1", 2)
	c.Floor("C11-R2", 1)
	c.Floor("C11-R3", 1)
	c.Floor("C11-R4", 5)
	c.Floor("C11-R5", 3)
	c.Floor("C11-R6", 5)
	// ---- R5: one snapshot of the published hash set per storage method
	sharedAtomicSnapshot(c, "C11-R5", "filter/hashprefix.Storage", "hashSuffixes", 3)
	// ---- R6: the result-cache key separates host, question type, class and direction
	c12Key(c, "C11-R6", "filter/internal.NewCacheKey", []string{"p0", "p1", "p2", "p3"})
	dt := func(n string) int64 { v, _ := c.ConstInt("github.com/miekg/dns", n); return v }
	tA, tAAAA, tHTTPS := dt("TypeA"), dt("TypeAAAA"), dt("TypeHTTPS")
	fam := func(n string) int64 { v, _ := c.ConstInt("github.com/AdguardTeam/golibs/netutil", n); return v }
	f4, f6, f0 := fam("AddrFamilyIPv4"), fam("AddrFamilyIPv6"), fam("AddrFamilyNone")
	types := an.Ints(tA, tAAAA, tHTTPS, dt("TypeTXT"), dt("TypeCNAME"), dt("TypeMX"), dt("TypeSVCB"), dt("TypeANY"), 0)

	// ---- R1
	decide(c, "C11-R1", "filter/hashprefix.isFilterable", an.DecideCfg{
		Dom: an.Domain{"p0": types},
		OnCall: func(it *an.Interp, name string, args []an.AV) (an.AV, bool) {
			if strings.HasSuffix(name, "netutil.AddrFamilyFromRRType") {
				switch avInt(args[0]) {
				case tA:
					return an.CInt(f4), true
				case tAAAA:
					return an.CInt(f6), true
				}
				return an.CInt(f0), true
			}
			return an.AV{}, false
		},
		Expect: func(f an.Features, o an.AOutcome) string {
			qt := f.I("p0")
			want := fmt.Sprintf("%d, false", f0)
			switch qt {
			case tA:
				want = fmt.Sprintf("%d, true", f4)
			case tAAAA:
				want = fmt.Sprintf("%d, true", f6)
			case tHTTPS:
				want = fmt.Sprintf("%d, true", f0)
			}
			if o.RetString() == want {
				return ""
			}
			return want + " (only A, AAAA and HTTPS questions are filterable)"
		},
	})
	decide(c, "C11-R1", "filter/internal/safesearch.(*Filter).FilterRequest", an.DecideCfg{
		Dom: an.Domain{"p2.QType": types},
		Expect: func(f an.Features, o an.AOutcome) string {
			qt := f.I("p2.QType")
			want := qt == tA || qt == tAAAA || qt == tHTTPS
			consulted := false
			for _, n := range o.Calls() {
				if strings.HasSuffix(n, ".DNSResult") {
					consulted = true
				}
			}
			if consulted == want {
				return ""
			}
			return fmt.Sprintf("rules consulted=%v for type %d (only A, AAAA and HTTPS)", want, qt)
		},
	})

	// ---- R7: the request filter consults every candidate name until the first match
	c.Floor("C11-R7", 2)
	hashprefixFilterRequest(c, "C11-R7")
	hashprefixFilteredResult(c, "C11-R7")
	hashprefixSubdomains(c, "C11-R7")
	hashprefixMatchByPrefix(c, "C11-R3")
	hashprefixPrefixStr(c, "C11-R3")
	c.Floor("C11-R17", 1)
	c11MatcherOrder(c)
	// ---- R16: a cached verdict is used only for the host it was stored for (shared with C12-R6)
	c.Floor("C11-R16", 1)
	c.Borrow("C11-R16", runC12, func(o an.Obligation) bool { return o.Rule == "C12-R6" && strings.Contains(o.Key, "hashprefix") })
	// ---- R15: the hash list is read completely or not at all (shared with C13-R7 / C13-R1)
	c.Floor("C11-R15", 2)
	c.Borrow("C11-R15", runC13, func(o an.Obligation) bool {
		return o.Rule == "C13-R7" || (o.Rule == "C13-R1" && strings.Contains(o.Key, "refreshFromFile"))
	})
	// ---- R14: the verdict cache of the hash-prefix filters stores and hands out copies
	c.Floor("C11-R14", 4)
	c07Caches(c, "C11-R14")
	// ---- R13: a stored digest is found wherever it sits in its bucket: the bucket is scanned to the end,
	// and any binary search in the package runs over data the package keeps sorted
	c.Floor("C11-R13", 1)
	c11BucketScan(c)

	// ---- R2
	encLen, _ := c.ConstInt("filter/hashprefix", "PrefixEncLen")
	decide(c, "C11-R2", "filter/hashprefix.prefixesFromStr", an.DecideCfg{
		Dom: an.Domain{`(p0 == "")`: an.Bools, "nseg": an.Ints(1, 2), "len(s0)": an.Ints(0, 3, 4, 5, 6, 7, 8, 9, 64), "len(s1)": an.Ints(4, 6, 8),
			"nvals": an.Ints(0, 1), "decodeerr": an.Bools, "tailerr0": an.Bools, "tailerr1": an.Bools},
		OnCall: func(it *an.Interp, name string, args []an.AV) (an.AV, bool) {
			switch {
			case name == "strings.Split":
				sl := an.AV{Kind: an.KSlice, Key: "[s0]", Tup: []an.AV{an.Sym("s0")}}
				if avInt(it.Feature("nseg")) == 2 {
					sl = an.AV{Kind: an.KSlice, Key: "[s0, s1]", Tup: []an.AV{an.Sym("s0"), an.Sym("s1")}}
				}
				return sl, true
			case strings.Contains(name, "container.NewMapSet"):
				return an.NonNil("set"), true
			case strings.HasSuffix(name, ").Values"):
				if avInt(it.Feature("nvals")) == 1 {
					return an.AV{Kind: an.KSlice, Key: "[v0]", Tup: []an.AV{an.Sym("v0")}}, true
				}
				return an.AV{Kind: an.KSlice, Key: "[]"}, true
			case strings.HasSuffix(name, ").Len"):
				return it.Feature("nvals"), true
			case name == "encoding/hex.DecodeString":
				// the whole legacy prefix is decoded before it is cut (see C11-R21)
				k := "tailerr0"
				if len(args) == 1 && args[0].String() == "s1" {
					k = "tailerr1"
				}
				e := an.Nil()
				if it.Feature(k).IsTrue() {
					e = an.NonNil("tailErr")
				}
				return an.AV{Kind: an.KTuple, Tup: []an.AV{an.Sym("decoded"), e}}, true
			case name == "encoding/hex.Decode":
				e := an.Nil()
				if it.Feature("decodeerr").IsTrue() {
					e = an.NonNil("hexErr")
				}
				return an.AV{Kind: an.KTuple, Tup: []an.AV{an.Sym("n"), e}}, true
			case name == "fmt.Errorf":
				return an.NonNil("wrapped"), true
			}
			return an.AV{}, false
		},
		Expect: func(f an.Features, o an.AOutcome) string {
			if f.B(`(p0 == "")`) {
				if o.RetString() == "nil, nil" {
					return ""
				}
				return "no prefixes for an empty query"
			}
			var added []string
			for _, e := range o.Effects {
				if e.Kind == "call" && strings.HasSuffix(e.Name, ").Add") {
					added = append(added, e.Args[len(e.Args)-1])
				}
			}
			n := int(f.I("nseg"))
			var want []string
			bad := false
			for i := 0; i < n && !bad; i++ {
				switch f.I(fmt.Sprintf("len(s%d)", i)) {
				case encLen:
					want = append(want, fmt.Sprintf("s%d", i))
				case 8:
					if f.B(fmt.Sprintf("tailerr%d", i)) {
						bad = true // a legacy prefix that is not hexadecimal throughout
						break
					}
					want = append(want, fmt.Sprintf("s%d[:%d]", i, encLen))
				default:
					bad = true
				}
			}
			if o.Exit != "return" || len(o.Ret) != 2 {
				return "a (prefixes, err) result"
			}
			if bad {
				if o.Ret[1].Kind != an.KNil {
					return ""
				}
				return "an error for a prefix that is neither four nor eight characters long, or an eight-character one that is not hexadecimal throughout"
			}
			if strings.Join(added, ",") != strings.Join(want, ",") {
				return fmt.Sprintf("prefixes %v collected (eight-character ones truncated to four); got %v", want, added)
			}
			wantErr := f.I("nvals") == 1 && f.B("decodeerr")
			if wantErr != (o.Ret[1].Kind != an.KNil) {
				return fmt.Sprintf("error=%v (undecodable text is refused)", wantErr)
			}
			return ""
		},
	})

	// ---- R3
	refused := dt("RcodeRefused")
	decide(c, "C11-R3", "dnssvc/internal/preservice.(*Middleware).respondWithHashes", an.DecideCfg{
		Dom: an.Domain{"matcherr": an.Bools, "matched": an.Bools, "txterr": an.Bools},
		OnCall: func(it *an.Interp, name string, args []an.AV) (an.AV, bool) {
			switch {
			case name == "p0.hashMatcher.MatchByPrefix":
				if len(args) != 2 || args[1].String() != "p5.Host" {
					return an.Sym("matcher consulted with another host"), true
				}
				if it.Feature("matcherr").IsTrue() {
					return an.AV{Kind: an.KTuple, Tup: []an.AV{an.Nil(), an.CBool(false), an.NonNil("matchErr")}}, true
				}
				return an.AV{Kind: an.KTuple, Tup: []an.AV{an.Sym("hashes"), it.Feature("matched"), an.Nil()}}, true
			case name == "(*dnsmsg.Constructor).NewRespRCode":
				return an.NonNil("rcode(" + args[1].String() + "," + args[2].String() + ")"), true
			case name == "(*dnsmsg.Constructor).NewRespTXT":
				if it.Feature("txterr").IsTrue() {
					return an.AV{Kind: an.KTuple, Tup: []an.AV{an.Nil(), an.NonNil("txtErr")}}, true
				}
				return an.AV{Kind: an.KTuple, Tup: []an.AV{an.NonNil("txt(" + args[1].String() + "," + args[2].String() + ")"), an.Nil()}}, true
			case name == "p3.WriteMsg":
				return an.Nil(), true
			case name == "p2.ServeDNS":
				return an.Sym("next"), true
			case name == "fmt.Errorf":
				return an.NonNil("wrapped"), true
			case strings.HasSuffix(name, "errors.Annotate"):
				return args[0], true
			}
			return an.AV{}, false
		},
		Expect: func(f an.Features, o an.AOutcome) string {
			var wr, nx []string
			for _, e := range o.Effects {
				if e.Kind == "call" && e.Name == "p3.WriteMsg" {
					wr = append(wr, strings.Join(e.Args, ","))
				}
				if e.Kind == "call" && e.Name == "p2.ServeDNS" {
					nx = append(nx, strings.Join(e.Args, ","))
				}
			}
			switch {
			case f.B("matcherr"):
				if len(nx) == 0 && len(wr) == 1 && wr[0] == fmt.Sprintf("p1,p4,nonnil:rcode(p4,%d)", refused) {
					return ""
				}
				return "a malformed prefix query answered REFUSED and never forwarded; got writes " + fmt.Sprint(wr) + " next " + fmt.Sprint(nx)
			case !f.B("matched"):
				if len(wr) == 0 && len(nx) == 1 && nx[0] == "p1,p3,p4" {
					return ""
				}
				return "a non-hash TXT query passed to the next stage"
			case f.B("txterr"):
				if len(wr) == 0 && len(nx) == 0 {
					return ""
				}
				return "an error when the TXT answer cannot be built"
			}
			if len(nx) == 0 && len(wr) == 1 && wr[0] == "p1,p4,nonnil:txt(p4,hashes)" {
				return ""
			}
			return "exactly the matcher's hashes written as TXT; got " + fmt.Sprint(wr)
		},
	})

	// ---- R4 digest split agreement
	prefLen, ok1 := c.ConstInt("filter/hashprefix", "PrefixLen")
	if !ok1 || encLen != 2*prefLen {
		c.Bad("C11-R4", "PrefixEncLen == 2*PrefixLen", token.NoPos, "the encoded prefix length is not twice the binary prefix length")
	} else {
		c.Ok("C11-R4", "PrefixEncLen == 2*PrefixLen", token.NoPos, "PrefixLen=%d, PrefixEncLen=%d", prefLen, encLen)
	}
	// new data is installed before the result cache is cleared (same rule as C12-R3)
	if fn := c.Fn("filter/hashprefix.(*Filter).refresh"); fn == nil {
		c.Und("C11-R4", "filter/hashprefix.(*Filter).refresh order", token.NoPos, "anchor not found")
	} else {
		var reset, clear ssa.CallInstruction
		for _, call := range an.Calls(fn) {
			if an.IsCall(call, "(*filter/hashprefix.Storage).Reset") {
				reset = call
			}
			if call.Common().IsInvoke() && call.Common().Method.Name() == "Clear" {
				clear = call
			}
		}
		c.Check(reset != nil && clear != nil && an.Dominates(reset, clear), "C11-R4", "filter/hashprefix.(*Filter).refresh order", fn.Pos(),
			"the result cache is cleared after the new hash set is installed",
			"the result cache is cleared before the new hash set is installed: verdicts computed from the old set during the reset stay cached, so removed hosts stay blocked and added hosts stay unblocked")
	}
	for _, k := range []string{"filter/hashprefix.(*Storage).Reset", "filter/hashprefix.(*Storage).Matches", "filter/hashprefix.(*Storage).Hashes"} {
		fn := c.Fn(k)
		if fn == nil {
			c.Und("C11-R4", k, token.NoPos, "anchor not found")
			continue
		}
		c.Analysed(k)
		var bad []string
		n := 0
		an.Instrs(fn, func(in ssa.Instruction) {
			sl, ok := in.(*ssa.Slice)
			if !ok {
				return
			}
			// size of the sliced array
			size := arrayLen(sl.X)
			for _, b := range []ssa.Value{sl.Low, sl.High} {
				k, isConst := an.ConstInt(b)
				if b == nil || !isConst {
					continue
				}
				switch size {
				case 32: // binary digest
					n++
					if k != prefLen {
						bad = append(bad, fmt.Sprintf("digest split at %d instead of PrefixLen=%d (%s)", k, prefLen, c.Pos(sl.Pos())))
					}
				case 64: // hex digest buffer
					n++
					if k != encLen {
						bad = append(bad, fmt.Sprintf("hex digest split at %d instead of PrefixEncLen=%d (%s)", k, encLen, c.Pos(sl.Pos())))
					}
				}
			}
		})
		switch {
		case len(bad) > 0:
			c.Bad("C11-R4", k, fn.Pos(), "writer and readers of the hash table disagree on where the digest is split: %s", strings.Join(bad, "; "))
		case n == 0:
			c.Und("C11-R4", k, fn.Pos(), "no constant split of a digest found")
		default:
			c.Ok("C11-R4", k, fn.Pos(), "%d constant digest splits, all at PrefixLen / PrefixEncLen", n)
		}
	}
}

// arrayLen returns the length of the array (or pointed-to array) that v
// denotes, or -1.
func arrayLen(v ssa.Value) int64 {
	t := v.Type().Underlying()
	if p, ok := t.(*types.Pointer); ok {
		t = p.Elem().Underlying()
	}
	if a, ok := t.(*types.Array); ok {
		return a.Len()
	}
	return -1
}

func avInt(a an.AV) int64  { return an.Env{"x": a}.I("x") }
func avStr(a an.AV) string { return an.Env{"x": a}.S("x") }

// hashprefixFilterRequest is the decision table of hashprefix.Filter.FilterRequest.
func hashprefixFilterRequest(c *an.Ctx, rule string) {
	decide(c, rule, "filter/hashprefix.(*Filter).FilterRequest", an.DecideCfg{
		Dom: an.Domain{"hit": an.Bools, "filterable": an.Bools, "nsub": an.Ints(0, 1, 3), "m0": an.Bools, "m1": an.Bools, "m2": an.Bools, "frerr": an.Bools,
			// candidate names are never empty
			`(sub0 == "")`: {an.CBool(false)}, `(sub1 == "")`: {an.CBool(false)}, `(sub2 == "")`: {an.CBool(false)}},
		OnCall: func(it *an.Interp, name string, args []an.AV) (an.AV, bool) {
			switch {
			case strings.HasSuffix(name, "filter/internal.NewCacheKey"):
				return an.Sym("key(" + args[0].String() + "," + args[1].String() + "," + args[2].String() + "," + args[3].String() + ")"), true
			case strings.HasSuffix(name, ").itemFromCache"):
				return an.AV{Kind: an.KTuple, Tup: []an.AV{an.NonNil("item"), it.Feature("hit")}}, true
			case strings.HasSuffix(name, ").updateCacheLookupsMetrics"), strings.HasSuffix(name, ").updateCacheSizeMetrics"):
				return an.Nil(), true
			case strings.HasSuffix(name, ").clonedResult"):
				return an.NonNil("clone(" + args[1].String() + "," + args[2].String() + ")"), true
			case strings.HasSuffix(name, "hashprefix.isFilterable"):
				return an.AV{Kind: an.KTuple, Tup: []an.AV{an.Sym("fam(" + args[0].String() + ")"), it.Feature("filterable")}}, true
			case strings.HasSuffix(name, "hashprefix.hashableSubdomains"):
				n := avInt(it.Feature("nsub"))
				sl := an.AV{Kind: an.KSlice}
				var ks []string
				for i := int64(0); i < n; i++ {
					sl.Tup = append(sl.Tup, an.Sym(fmt.Sprintf("sub%d", i)))
					ks = append(ks, fmt.Sprintf("sub%d", i))
				}
				sl.Key = "[" + strings.Join(ks, ", ") + "]"
				return sl, true
			case strings.HasSuffix(name, "hashprefix.Storage).Matches"):
				a := args[1].String()
				if strings.HasPrefix(a, "sub") {
					return it.Feature("m" + strings.TrimPrefix(a, "sub")), true
				}
				return an.Sym("match of something that is not a candidate name: " + a), true
			case strings.HasSuffix(name, ").filteredResult"):
				if it.Feature("frerr").IsTrue() {
					return an.AV{Kind: an.KTuple, Tup: []an.AV{an.Nil(), an.NonNil("frErr")}}, true
				}
				return an.AV{Kind: an.KTuple, Tup: []an.AV{an.NonNil("res(" + args[1].String() + "," + args[2].String() + "," + args[3].String() + ")"), an.Nil()}}, true
			case strings.HasSuffix(name, ").setInCache"):
				return an.Nil(), true
			case name == "p0.resCache.Len":
				return an.Sym("len"), true
			}
			return an.AV{}, false
		},
		Expect: func(f an.Features, o an.AOutcome) string {
			if o.Exit != "return" || len(o.Ret) != 2 {
				return "a (result, err) return"
			}
			key := "key(p2.Host,p2.QType,p2.QClass,false)"
			var matches, sets, setIn []string
			for _, e := range o.Effects {
				if e.Kind != "call" {
					continue
				}
				switch {
				case strings.HasSuffix(e.Name, ").itemFromCache"):
					if e.Args[2] != key || e.Args[3] != "p2.Host" {
						return "the result cache consulted with the key of this request's host, type and class; got " + strings.Join(e.Args[2:], ",")
					}
				case strings.HasSuffix(e.Name, "hashprefix.Storage).Matches"):
					matches = append(matches, e.Args[1])
				case e.Name == "p0.resCache.Set":
					sets = append(sets, strings.Join(e.Args, ","))
				case strings.HasSuffix(e.Name, ").setInCache"):
					setIn = append(setIn, strings.Join(e.Args[1:], ","))
				}
			}
			if f.B("hit") {
				if len(matches) == 0 && o.RetString() == "nonnil:clone(p2.DNS,item.res), nil" {
					return ""
				}
				return "a clone of the cached result adapted to this request on a cache hit; got " + o.RetString()
			}
			if !f.B("filterable") {
				if len(matches) == 0 && len(sets)+len(setIn) == 0 && o.RetString() == "nil, nil" {
					return ""
				}
				return "no verdict (and no lookup) for question types other than A, AAAA and HTTPS"
			}
			n := int(f.I("nsub"))
			first := -1
			var wantMatches []string
			for i := 0; i < n; i++ {
				wantMatches = append(wantMatches, fmt.Sprintf("sub%d", i))
				if f.B(fmt.Sprintf("m%d", i)) {
					first = i
					break
				}
			}
			if strings.Join(matches, ",") != strings.Join(wantMatches, ",") {
				return "the host and each parent name checked in order until the first listed one (" + strings.Join(wantMatches, ",") + "); got " + strings.Join(matches, ",")
			}
			if first < 0 {
				if o.RetString() != "nil, nil" || len(setIn) != 0 {
					return "no verdict when no candidate name is listed"
				}
				return ""
			}
			m := fmt.Sprintf("sub%d", first)
			if f.B("frerr") {
				if o.Ret[1].Kind != an.KNil && len(setIn) == 0 {
					return ""
				}
				return "the error returned and nothing cached when the replacement cannot be built"
			}
			res := "nonnil:res(p2," + m + ",fam(p2.QType))"
			if o.RetString() != res+", nil" {
				return "the replacement built for this request, the listed name and the question's address family; got " + o.RetString()
			}
			if len(setIn) != 1 || setIn[0] != key+","+res+",p2.Host" {
				return "the verdict cached under this request's key and host; got " + strings.Join(setIn, " / ")
			}
			return ""
		},
	})
}

// hashprefixFilteredResult is the table of filteredResult / respForFamily: which
// replacement is built for a listed name.
func hashprefixFilteredResult(c *an.Ctx, rule string) {
	fam := func(n string) int64 { v, _ := c.ConstInt("github.com/AdguardTeam/golibs/netutil", n); return v }
	f4, f6, f0 := fam("AddrFamilyIPv4"), fam("AddrFamilyIPv6"), fam("AddrFamilyNone")
	decide(c, rule, "filter/hashprefix.(*Filter).respForFamily", an.DecideCfg{
		Dom: an.Domain{"p2": an.Ints(f4, f6, f0), "ipfam": an.Ints(4, 6)},
		OnCall: func(it *an.Interp, name string, args []an.AV) (an.AV, bool) {
			switch {
			case name == "(net/netip.Addr).Is4":
				return an.CBool(avInt(it.Feature("ipfam")) == 4), true
			case name == "(net/netip.Addr).Is6":
				return an.CBool(avInt(it.Feature("ipfam")) == 6), true
			case strings.HasSuffix(name, "Constructor).NewBlockedResp"):
				return an.AV{Kind: an.KTuple, Tup: []an.AV{an.NonNil("blocked(" + args[1].String() + ")"), an.Nil()}}, true
			case strings.HasSuffix(name, "Constructor).NewBlockedRespIP"):
				return an.AV{Kind: an.KTuple, Tup: []an.AV{an.NonNil("blockedIP(" + args[1].String() + ")"), an.Nil()}}, true
			case strings.HasSuffix(name, "Constructor).NewRespRCode"):
				return an.NonNil("rcode(" + args[1].String() + "," + args[2].String() + ")"), true
			case strings.HasSuffix(name, "Constructor).AddEDE"):
				return an.Nil(), true
			}
			return an.AV{}, false
		},
		Expect: func(f an.Features, o an.AOutcome) string {
			qf, ipf := f.I("p2"), f.I("ipfam")
			var want string
			switch {
			case qf == f0:
				want = "nonnil:blocked(p1.DNS), nil"
			case (qf == f4 && ipf == 4) || (qf == f6 && ipf == 6):
				want = "nonnil:blockedIP(p1.DNS), nil"
			default:
				want = "nonnil:rcode(p1.DNS,0), nil"
			}
			if o.RetString() != want {
				return want + " (blocked-page address only for the matching family, NODATA otherwise, the profile's blocking mode for HTTPS; always built from this request); got " + o.RetString()
			}
			return ""
		},
	})
}

// hashprefixSubdomains is the table of hashableSubdomains: the candidates are
// the sub-names of the last four labels, cut before the ICANN public suffix.
func hashprefixSubdomains(c *an.Ctx, rule string) {
	const fnKey = "filter/hashprefix.hashableSubdomains"
	decide(c, rule, fnKey, an.DecideCfg{
		Dom: an.Domain{"icann": an.Bools, "cut": an.Ints(-1, 7), "(d0 == pubsuf)": an.Bools, "(d1 == pubsuf)": an.Bools, "(d2 == pubsuf)": an.Bools,
			`(d0 == "")`: {an.CBool(false)}, `(d1 == "")`: {an.CBool(false)}, `(d2 == "")`: {an.CBool(false)}},
		OnCall: func(it *an.Interp, name string, args []an.AV) (an.AV, bool) {
			switch {
			case strings.HasSuffix(name, "publicsuffix.PublicSuffix"):
				if args[0].String() != "p0" {
					return an.Sym("public suffix of something else"), true
				}
				return an.AV{Kind: an.KTuple, Tup: []an.AV{an.Sym("pubsuf"), it.Feature("icann")}}, true
			case name == "strings.LastIndexFunc":
				return it.Feature("cut"), true
			case strings.HasSuffix(name, "netutil.Subdomains"):
				return an.AV{Kind: an.KSlice, Key: "subs(" + args[0].String() + ")", Tup: []an.AV{an.Sym("d0"), an.Sym("d1"), an.Sym("d2")}}, true
			}
			return an.AV{}, false
		},
		Expect: func(f an.Features, o an.AOutcome) string {
			// which domain was expanded
			var arg string
			for _, e := range o.Effects {
				if e.Kind == "call" && strings.HasSuffix(e.Name, "netutil.Subdomains") {
					arg = e.Args[0]
				}
			}
			if f.I("cut") == -1 {
				if arg != "p0" {
					return "the whole name expanded when it has fewer than four dots; got " + arg
				}
			} else if arg == "p0" || arg == "" {
				return "only the part after the fourth dot from the right expanded; got " + arg
			}
			n := 3
			if f.B("icann") {
				for i := 0; i < 3; i++ {
					if f.B(fmt.Sprintf("(d%d == pubsuf)", i)) {
						n = i
						break
					}
				}
			}
			got := -1
			if len(o.Ret) == 1 && o.Ret[0].Kind == an.KSlice {
				got = len(o.Ret[0].Tup)
			}
			if got != n {
				return fmt.Sprintf("the %d candidates before the ICANN public suffix (private suffixes are searched in full); got %s", n, o.RetString())
			}
			return ""
		},
	})
	// the label cut is at four labels
	want, _ := c.ConstInt("filter/hashprefix", "subDomainNum")
	fn := c.Fn(fnKey + "$1")
	ok := false
	if fn != nil {
		an.Instrs(fn, func(in ssa.Instruction) {
			if b, isBin := in.(*ssa.BinOp); isBin && b.Op == token.EQL {
				if k, isK := an.ConstInt(b.Y); isK && k == 4 && want == 4 {
					ok = true
				}
			}
		})
	}
	c.Check(ok, rule, fnKey+" label cut", token.NoPos, "the name is cut at the fourth dot from the right", "the label cut is not at four labels")
}

// hashprefixMatchByPrefix is the table of Matcher.MatchByPrefix: the storage is
// the one whose suffix the name carries, a malformed prefix list is an error
// (which the responder turns into REFUSED), and the hashes come from that
// storage for exactly the parsed prefixes.
func hashprefixMatchByPrefix(c *an.Ctx, rule string) {
	r := "range(p0.storages)"
	decide(c, rule, "filter/hashprefix.(*Matcher).MatchByPrefix", an.DecideCfg{
		Dom: an.Domain{"next(" + r + ")#0": an.Bools, "next(" + r + ")#1": an.Bools, "next(" + r + ")#2": {an.CBool(false)},
			"suf0": an.Bools, "suf1": an.Bools, "preferr": an.Bools},
		OnCall: func(it *an.Interp, name string, args []an.AV) (an.AV, bool) {
			switch {
			case name == "strings.HasSuffix":
				if args[0].String() != "p2" {
					return an.Sym("suffix test on another string"), true
				}
				switch args[1].String() {
				case "key#0(" + r + ")":
					return it.Feature("suf0"), true
				case "key#1(" + r + ")":
					return it.Feature("suf1"), true
				}
				return an.Sym("suffix test with " + args[1].String()), true
			case strings.HasSuffix(name, "hashprefix.prefixesFromStr"):
				if it.Feature("preferr").IsTrue() {
					return an.AV{Kind: an.KTuple, Tup: []an.AV{an.Nil(), an.NonNil("prefErr")}}, true
				}
				return an.AV{Kind: an.KTuple, Tup: []an.AV{an.NonNil("prefixes"), an.Nil()}}, true
			case strings.HasSuffix(name, "hashprefix.Storage).Hashes"):
				return an.NonNil("hashes(" + args[0].String() + "," + args[1].String() + ")"), true
			}
			return an.AV{}, false
		},
		Expect: func(f an.Features, o an.AOutcome) string {
			which := -1
			for i := 0; i < 2; i++ {
				if !f.B(fmt.Sprintf("next(%s)#%d", r, i)) {
					break
				}
				if f.B(fmt.Sprintf("suf%d", i)) {
					which = i
					break
				}
			}
			if which < 0 {
				if o.RetString() == "nil, false, nil" && !o.HasCall("(*filter/hashprefix.Storage).Hashes") {
					return ""
				}
				return "not matched (and no lookup) when the name carries none of the configured suffixes; got " + o.RetString()
			}
			if f.B("preferr") {
				if len(o.Ret) == 3 && o.Ret[0].Kind == an.KNil && o.Ret[2].Kind != an.KNil && !o.HasCall("(*filter/hashprefix.Storage).Hashes") {
					return ""
				}
				return "an error and no lookup for a malformed prefix list; got " + o.RetString()
			}
			want := fmt.Sprintf("nonnil:hashes(nonnil:elem#%d(%s),nonnil:prefixes), true, nil", which, r)
			if o.RetString() != want {
				return "the hashes of the storage whose suffix matched, for the parsed prefixes; got " + o.RetString()
			}
			return ""
		},
	})
}

// hashprefixPrefixStr checks the string handed to prefixesFromStr: the queried
// name with exactly the matched suffix cut off its end (a slice up to
// len(host)-len(suffix), or strings.TrimSuffix / CutSuffix with that suffix).
// A cut-set trim (strings.TrimRight) also removes hex digits that occur in the
// suffix's character set.
func hashprefixPrefixStr(c *an.Ctx, rule string) {
	fn := c.Fn("filter/hashprefix.(*Matcher).MatchByPrefix")
	if fn == nil {
		c.Und(rule, "filter/hashprefix.(*Matcher).MatchByPrefix prefix string", token.NoPos, "anchor not found")
		return
	}
	n := 0
	for _, call := range an.Calls(fn) {
		if !strings.HasSuffix(an.CalleeName(call), "hashprefix.prefixesFromStr") {
			continue
		}
		n++
		bad := ""
		seen := map[ssa.Value]bool{}
		var walk func(v ssa.Value)
		walk = func(v ssa.Value) {
			if seen[v] {
				return
			}
			seen[v] = true
			switch x := v.(type) {
			case *ssa.Phi:
				for _, e := range x.Edges {
					walk(e)
				}
			case *ssa.Const:
			case *ssa.Slice:
				hi, ok := x.High.(*ssa.BinOp)
				if _, isParam := x.X.(*ssa.Parameter); !isParam || x.Low != nil || !ok || hi.Op != token.SUB || !isLenOf(hi.X, x.X) || !isLenCall(hi.Y) {
					bad = "a slice of the name other than host[:len(host)-len(suffix)]"
				}
			case *ssa.Call:
				switch an.CalleeName(x) {
				case "strings.TrimSuffix":
				default:
					bad = "result of " + an.Short(an.CalleeName(x))
				}
			case *ssa.Extract:
				if call, ok := x.Tuple.(*ssa.Call); ok && an.CalleeName(call) == "strings.CutSuffix" && x.Index == 0 {
					return
				}
				bad = "an extracted value"
			default:
				bad = fmt.Sprintf("%T value", v)
			}
		}
		walk(call.Common().Args[0])
		c.Check(bad == "", rule, "filter/hashprefix.(*Matcher).MatchByPrefix prefix string", call.Pos(),
			"the prefix list is the name with exactly the matched suffix cut off",
			"the prefix list handed to prefixesFromStr is "+bad+", not the name minus the matched suffix")
	}
	if n == 0 {
		c.Und(rule, "filter/hashprefix.(*Matcher).MatchByPrefix prefix string", fn.Pos(), "no call of prefixesFromStr")
	}
}

func isLenCall(v ssa.Value) bool {
	call, ok := v.(*ssa.Call)
	if !ok {
		return false
	}
	b, ok := call.Call.Value.(*ssa.Builtin)
	return ok && b.Name() == "len"
}

func isLenOf(v, of ssa.Value) bool {
	call, ok := v.(*ssa.Call)
	return ok && isLenCall(v) && call.Call.Args[0] == of
}

// c11LineSource checks where the names hashed into the storage come from.
func c11LineSource(c *an.Ctx) {
	c.Floor("C11-R9", 1)
	const k = "filter/hashprefix.(*Storage).Reset"
	fn := c.Fn(k)
	if fn == nil {
		c.Und("C11-R9", k, token.NoPos, "anchor not found")
		return
	}
	c.Analysed(k)
	n := 0
	for _, call := range an.CallsTo(fn, "crypto/sha256.Sum256") {
		n++
		var bad []string
		w := &an.Walker{P: c.Prog, NoFieldJoin: true,
			Visit: func(v ssa.Value) bool {
				if cl, ok := v.(*ssa.Call); ok {
					switch an.CalleeName(cl) {
					case "(*bufio.Scanner).Text", "(*bufio.Scanner).Bytes", "strings.TrimSpace", "strings.TrimRight", "strings.TrimSuffix", "strings.Trim", "bytes.TrimSpace", "bytes.TrimRight":
						return true
					}
				}
				return false
			},
			ThroughCalls: func(cl *ssa.Call) ([]ssa.Value, bool) { return nil, false },
			Leaf: func(v ssa.Value, why string) {
				if _, isConst := v.(*ssa.Const); isConst {
					return
				}
				bad = append(bad, fmt.Sprintf("%s (%s)", v.Name(), why))
			},
		}
		w.Walk(call.Common().Args[0])
		key := k + " hashed name source"
		if len(bad) > 0 {
			c.Bad("C11-R9", key, call.Pos(), "a hashed name does not come from a line source that strips the line terminator (bufio.Scanner line splitting or an explicit trim): %s; with CRLF lists every name is hashed with a trailing carriage return and never matches", strings.Join(uniq(bad), "; "))
		} else {
			c.Ok("C11-R9", key, call.Pos(), "every hashed name comes from the scanner's line splitting (or is trimmed)")
		}
	}
	if n == 0 {
		c.Und("C11-R9", k+" hashing", fn.Pos(), "no SHA-256 call found in Reset")
	}
}

// c11BuilderWiring checks that each of the three hash-prefix filters is wired to
// its own list: ID constant, cache file named after that ID, its own hash
// storage and URL, stored into its own builder field.
func c11BuilderWiring(c *an.Ctx) {
	c.Floor("C11-R11", 9)
	for _, w := range []struct{ fn, id, hashes, url, target string }{
		{"cmd.(*builder).initSafeBrowsing", "safe_browsing", "safeBrowsingHashes", "SafeBrowsingURL", "safeBrowsing"},
		{"cmd.(*builder).initAdultBlocking", "adult_blocking", "adultBlockingHashes", "AdultBlockingURL", "adultBlocking"},
		{"cmd.(*builder).initNewRegDomains", "newly_registered_domains", "newRegDomainsHashes", "NewRegDomainsURL", "newRegDomains"},
	} {
		fn := c.Fn(w.fn)
		if fn == nil {
			c.Und("C11-R11", w.fn, token.NoPos, "anchor not found")
			continue
		}
		c.Analysed(w.fn)
		constStr := func(v ssa.Value) (string, bool) {
			for {
				switch x := v.(type) {
				case *ssa.Convert:
					v = x.X
					continue
				case *ssa.ChangeType:
					v = x.X
					continue
				case *ssa.MakeInterface:
					v = x.X
					continue
				}
				break
			}
			if k, ok := v.(*ssa.Const); ok && k.Value != nil && k.Value.Kind() == constant.String {
				return constant.StringVal(k.Value), true
			}
			return "", false
		}
		var id, cacheID string
		var hashes, url string
		an.Instrs(fn, func(in ssa.Instruction) {
			st, ok := in.(*ssa.Store)
			if !ok {
				return
			}
			typ, f, _, ok := an.FieldOf(st.Addr)
			if !ok || typ != "filter/hashprefix.FilterConfig" {
				return
			}
			switch f {
			case "ID":
				id, _ = constStr(st.Val)
			case "Hashes":
				hashes, _ = an.AccessPath(st.Val)
			case "URL":
				url, _ = an.AccessPath(st.Val)
			case "CachePath":
				if call, ok := st.Val.(*ssa.Call); ok && an.CalleeName(call) == "path/filepath.Join" {
					// the variadic elements
					if sl, ok := call.Call.Args[0].(*ssa.Slice); ok {
						if al, ok := sl.X.(*ssa.Alloc); ok && al.Referrers() != nil {
							for _, r := range *al.Referrers() {
								if ia, ok := r.(*ssa.IndexAddr); ok && ia.Referrers() != nil {
									for _, rr := range *ia.Referrers() {
										if st2, ok := rr.(*ssa.Store); ok {
											if s, isConst := constStr(st2.Val); isConst {
												cacheID = s
											}
										}
									}
								}
							}
						}
					}
				}
			}
		})
		c.Check(id == w.id, "C11-R11", w.fn+" ID", fn.Pos(), "the filter carries its list's ID", fmt.Sprintf("the filter is given the ID %q instead of %q", id, w.id))
		c.Check(cacheID == w.id, "C11-R11", w.fn+" cache file", fn.Pos(), "the cache file is named after the filter's own ID",
			fmt.Sprintf("the cache file is named %q instead of %q: two lists overwrite each other's on-disk copy and are loaded as one another", cacheID, w.id))
		c.Check(strings.HasSuffix(hashes, "."+w.hashes) && strings.Contains(url, "."+w.url+"."), "C11-R11", w.fn+" storage and URL", fn.Pos(),
			"the filter fills its own hash storage from its own URL", fmt.Sprintf("the filter is wired to storage %s and URL %s of another list", hashes, url))
	}
}

// c11BucketScan: the membership test of a bucket.
func c11BucketScan(c *an.Ctx) {
	const name = "filter/hashprefix.(*Storage).Matches"
	n := sharedSortedSearch(c, "C11-R13", "filter/hashprefix.", "bindtodevice.")
	fn := c.Fn(name)
	if fn == nil {
		c.Und("C11-R13", name+" bucket scan", token.NoPos, "anchor not found")
		return
	}
	c.Analysed(name)
	// the loaded bucket
	var bucket ssa.Value
	for _, call := range an.Calls(fn) {
		if strings.HasSuffix(an.CalleeName(call), "hashprefix.Storage).loadHashSuffixes") {
			if cv, ok := call.(*ssa.Call); ok && cv.Referrers() != nil {
				for _, r := range *cv.Referrers() {
					if ex, ok := r.(*ssa.Extract); ok && ex.Index == 0 {
						bucket = ex
					}
				}
			}
		}
	}
	if bucket == nil {
		c.Und("C11-R13", name+" bucket scan", fn.Pos(), "the bucket is not loaded through loadHashSuffixes")
		return
	}
	scans := 0
	for _, l := range naturalLoops(fn) {
		if !strings.Contains(loopSubject(l), "loadHashSuffixes") && !loopRangesOver(l, bucket) {
			continue
		}
		scans++
		// every exit of the loop other than exhaustion returns true
		bad := ""
		for b := range l.blocks {
			for _, s := range b.Succs {
				if l.blocks[s] || s == l.done {
					continue
				}
				// leaving the loop: must be a return of constant true
				ret, ok := s.Instrs[len(s.Instrs)-1].(*ssa.Return)
				if !ok || len(ret.Results) != 1 {
					c.Und("C11-R13", name+" bucket scan", fn.Pos(), "a loop exit that is not a plain return: idiom not recognised")
					continue
				}
				if k, ok := ret.Results[0].(*ssa.Const); !ok || k.Value == nil || k.Value.String() != "true" {
					bad = "an early exit that does not report a hit"
				}
			}
		}
		for _, b := range l.done.Preds {
			if b != l.header && l.header.Dominates(b) {
				bad = "a break"
			}
		}
		c.Check(bad == "", "C11-R13", name+" bucket scan", fn.Pos(),
			"the bucket is scanned until a hit or its end", "the scan of the bucket can stop before its end through "+bad)
	}
	if scans == 0 {
		if n > 0 {
			// no linear scan: the verdict rests on the sorted-search obligations above
			c.Inf("C11-R13", name+" bucket scan", fn.Pos(), "no linear scan of the bucket; membership is decided by a binary search (see the sorted-search obligation)")
			return
		}
		c.Und("C11-R13", name+" bucket scan", fn.Pos(), "neither a range loop over the bucket nor a binary search was recognised")
	}
}

// loopRangesOver reports whether the loop's header compares its index with len(v).
func loopRangesOver(l *loopInfo, v ssa.Value) bool {
	for _, in := range l.header.Instrs {
		if b, ok := in.(*ssa.BinOp); ok {
			for _, side := range []ssa.Value{b.X, b.Y} {
				if isLenOf(side, v) {
					return true
				}
			}
		}
	}
	// the length may be taken in the preheader
	for _, p := range l.header.Preds {
		if l.blocks[p] {
			continue
		}
		for _, in := range p.Instrs {
			if call, ok := in.(*ssa.Call); ok && isLenOf(call, v) {
				return true
			}
		}
	}
	return false
}

// c11MatcherOrder: the matcher that answers the TXT hash-prefix queries is
// built from the storages map after the filters that register their storages
// in it have been initialised.
func c11MatcherOrder(c *an.Ctx) {
	const k = "cmd.(*builder).initHashPrefixFilters"
	fn := c.Fn(k)
	if fn == nil {
		c.Und("C11-R17", k+" builds the matcher after the storages are registered", token.NoPos, "anchor not found")
		return
	}
	c.Analysed(k)
	var matcher ssa.CallInstruction
	var inits []ssa.CallInstruction
	for _, call := range an.Calls(fn) {
		n := an.CalleeName(call)
		switch {
		case strings.HasSuffix(n, "hashprefix.NewMatcher"):
			matcher = call
		case strings.HasSuffix(n, ").initAdultBlocking"), strings.HasSuffix(n, ").initSafeBrowsing"):
			inits = append(inits, call)
		}
	}
	ok := matcher != nil && len(inits) == 2
	for _, in := range inits {
		if ok && !an.Dominates(in, matcher) {
			ok = false
		}
	}
	c.Check(ok, "C11-R17", k+" builds the matcher after the storages are registered", fn.Pos(),
		"both filter initialisations dominate NewMatcher", "NewMatcher is not preceded by both initAdultBlocking and initSafeBrowsing: it can be built from a map that is still empty")
}

// c11PreserviceDispatch holds the table of the pre-service middleware: every
// TXT question, whatever its class, is handled by the hash-prefix responder
// (which answers, refuses or passes on); every other question goes to the DNS
// check and then down the pipeline.
func c11PreserviceDispatch(c *an.Ctx, rule string) {
	txt, _ := c.ConstInt("github.com/miekg/dns", "TypeTXT")
	decide(c, rule, "dnssvc/internal/preservice.(*Middleware).Wrap$1", an.DecideCfg{
		Dom: an.Domain{"ri.QType": an.Ints(1, txt, 28), "ri.QClass": an.Ints(1, 3, 255), "checkerr": an.Bools, "checkresp": an.Bools, "writeerr": an.Bools},
		OnCall: func(it *an.Interp, name string, args []an.AV) (an.AV, bool) {
			switch {
			case strings.HasSuffix(name, "MustRequestInfoFromContext"):
				return an.NonNil("ri"), true
			case strings.HasSuffix(name, ").respondWithHashes"):
				return an.Sym("hashes(" + strings.Join(avStrings(args[1:]), ",") + ")"), true
			case strings.HasSuffix(name, ".Check"):
				if it.Feature("checkerr").IsTrue() {
					return an.AV{Kind: an.KTuple, Tup: []an.AV{an.Nil(), an.NonNil("checkErr")}}, true
				}
				if it.Feature("checkresp").IsTrue() {
					return an.AV{Kind: an.KTuple, Tup: []an.AV{an.NonNil("checkResp"), an.Nil()}}, true
				}
				return an.AV{Kind: an.KTuple, Tup: []an.AV{an.Nil(), an.Nil()}}, true
			case strings.HasSuffix(name, ".ServeDNS"):
				return an.Sym("next"), true
			case strings.HasSuffix(name, ".WriteMsg"):
				if it.Feature("writeerr").IsTrue() {
					return an.NonNil("writeErr"), true
				}
				return an.Nil(), true
			case strings.HasSuffix(name, "errors.Annotate"):
				return args[0], true
			case name == "fmt.Errorf":
				return an.NonNil("wrapped"), true
			}
			return an.AV{}, false
		},
		Expect: func(f an.Features, o an.AOutcome) string {
			has := func(suffix string) bool {
				for _, n := range o.Calls() {
					if strings.HasSuffix(n, suffix) {
						return true
					}
				}
				return false
			}
			if f.I("ri.QType") == txt {
				if !has(").respondWithHashes") || has(".Check") || has(".ServeDNS") {
					return "a TXT question of any class is handled by respondWithHashes alone; calls: " + strings.Join(o.Calls(), ", ")
				}
				return ""
			}
			if has(").respondWithHashes") || !has(".Check") {
				return "a question of another type goes to the DNS check; calls: " + strings.Join(o.Calls(), ", ")
			}
			return ""
		},
	})
}

// c11WholePrefixValidated: a prefix string that is cut before it is decoded (the
// legacy eight-character form is reduced to its first four characters) is
// validated as a whole first.  Otherwise the part that is cut off is never
// looked at, and a malformed prefix whose head happens to be valid is answered
// instead of refused.  In prefixesFromStr every string slice of a prefix
// element must be dominated by a hex decoding call that is given the uncut
// string.
func c11WholePrefixValidated(c *an.Ctx, rule string) {
	const k = "filter/hashprefix.prefixesFromStr"
	fn := c.Fn(k)
	key := k + " validates a prefix before it cuts it"
	if fn == nil {
		c.Und(rule, key, token.NoPos, "anchor not found")
		return
	}
	c.Analysed(k)
	isBytesOf := func(v, s ssa.Value) bool {
		for {
			switch x := v.(type) {
			case *ssa.Convert:
				v = x.X
				continue
			case *ssa.ChangeType:
				v = x.X
				continue
			}
			return v == s
		}
	}
	n := 0
	bad := ""
	an.Instrs(fn, func(in ssa.Instruction) {
		sl, ok := in.(*ssa.Slice)
		if !ok || !isBasicKind(sl.X.Type(), types.String) || sl.High == nil {
			return
		}
		n++
		validated := false
		for _, call := range an.Calls(fn) {
			name := an.CalleeName(call)
			if !strings.HasPrefix(name, "encoding/hex.Decode") && !strings.Contains(name, "hex.DecodeString") {
				continue
			}
			for _, a := range call.Common().Args {
				if isBytesOf(a, sl.X) && an.Dominates(call, sl) {
					validated = true
				}
			}
		}
		if !validated {
			bad = "the prefix is cut at " + c.Pos(sl.Pos()) + " without the uncut string having been decoded"
		}
	})
	c.Check(n > 0 && bad == "", rule, key, fn.Pos(), fmt.Sprintf("%d cuts of a prefix string, each after the whole string was decoded", n),
		bad+": the characters that are cut off are never validated, so a malformed legacy prefix with a valid head is answered, not refused")
}

// c11CachedResponseForReq: in hashprefix.(*Filter).clonedResult, the case of the
// type switch for *internal.ResultModifiedResponse leads only to returns of the
// result of CloneForReq (with the request): a plain Clone keeps the ID,
// question and flags of the client that filled the cache.
func c11CachedResponseForReq(c *an.Ctx, rule string) {
	k := "filter/hashprefix.(*Filter).clonedResult"
	fn := c.Prog.Fn(k)
	key := k + " re-targets a cached response at the request"
	if fn == nil {
		c.Und(rule, key, token.NoPos, "anchor not found")
		return
	}
	c.Analysed(k)
	var okBlock *ssa.BasicBlock
	an.Instrs(fn, func(in ssa.Instruction) {
		ta, ok := in.(*ssa.TypeAssert)
		if !ok || !ta.CommaOk || !strings.HasSuffix(ta.AssertedType.String(), "ResultModifiedResponse") {
			return
		}
		for _, r := range *ta.Referrers() {
			if ex, isEx := r.(*ssa.Extract); isEx && ex.Index == 1 {
				for _, r2 := range *ex.Referrers() {
					if ifi, isIf := r2.(*ssa.If); isIf {
						okBlock = ifi.Block().Succs[0]
					}
				}
			}
		}
	})
	if okBlock == nil {
		c.Und(rule, key, fn.Pos(), "the case for ResultModifiedResponse was not found")
		return
	}
	// every return reachable from the case block before another case begins
	bad, n := "", 0
	seen := map[*ssa.BasicBlock]bool{}
	var walk func(b *ssa.BasicBlock)
	walk = func(b *ssa.BasicBlock) {
		if seen[b] {
			return
		}
		seen[b] = true
		for _, in := range b.Instrs {
			if _, isTA := in.(*ssa.TypeAssert); isTA && b != okBlock {
				return
			}
			if r, isRet := in.(*ssa.Return); isRet && len(r.Results) == 1 {
				n++
				v := r.Results[0]
				if mi, ok := v.(*ssa.MakeInterface); ok {
					v = mi.X
				}
				call, ok := v.(*ssa.Call)
				if !ok || !strings.HasSuffix(an.CalleeName(call), "ResultModifiedResponse).CloneForReq") {
					bad = "the return at " + c.Pos(r.Pos()) + " does not hand out the result of CloneForReq"
				}
			}
		}
		for _, s := range b.Succs {
			walk(s)
		}
	}
	walk(okBlock)
	if n == 0 {
		c.Und(rule, key, fn.Pos(), "no return found in the case for ResultModifiedResponse")
		return
	}
	c.Check(bad == "", rule, key, fn.Pos(), fmt.Sprintf("%d return(s), all of CloneForReq", n),
		bad+": a cache hit carries the message ID, question and flags of the client that filled the cache, and the asking client discards the block-page answer")
}
