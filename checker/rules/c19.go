package rules

import (
	"fmt"
	"go/constant"
	"go/token"
	"strconv"
	"strings"

	"adgverif/an"

	"golang.org/x/tools/go/ssa"
)

func init() {
	register(&Property{ID: "C19", Technique: "decision-tree extraction (abstract interpretation) of the proxy gate and of the path-shape functions with effect tables; struct-literal coverage of the reverse proxy",
		Run: runC19, Explain: an.Explanation{
			Text: "R1: the decision tree of (*linkedIPProxy).ServeHTTP: the backend proxy is invoked only when shouldProxy(method, " +
				"URL path) is true and the peer address could be split; on that edge the four client-supplied forwarding headers " +
				"are deleted and X-Connecting-IP is set (replacing any client value) to the host part of RemoteAddr; all other " +
				"edges answer locally. R2: the decision tree of shouldProxy/shouldProxyGet/shouldProxyPost over (method, number " +
				"of segments, first segment, fourth segment, presence of '.' or '..' segments) equals the four documented shapes, " +
				"any dot segment is refused, and the split limit exceeds the longest accepted shape so no accepted segment can " +
				"contain a slash. R3: the ReverseProxy is built with Rewrite (which strips Forwarded / X-Forwarded-*) and without " +
				"Director, and Rewrite only calls SetURL(target) and sets Host and User-Agent.",
			NotCovered: "string predicates other than segment equality; behaviour of net/http and httputil themselves (hop-by-hop header handling).",
			Rules: map[string]string{"C19-R9": "whatever the linked-IP proxy does not forward (and is not robots.txt) is answered by net/http.NotFound itself, a 404 made on the spot: ServeHTTP hands no such request to another handler (the rest of the web service would answer redirects, static content and the DNS check on the linked-IP addresses)", "C19-R7": "nothing in the web service rewrites the peer address of a request (no store into http.Request.RemoteAddr): the address the proxy reports to the backend is the connecting peer's; R8: the reverse proxy talks to the backend through a plain *http.Transport, which relays redirects to the client instead of following them (an http.Client would contact other paths and hosts by itself)", "C19-R6": "the proxy never lets a client switch protocols: the Upgrade header of the inbound request is deleted before the request is handed to httputil.ReverseProxy (which would relay a 101 of the backend and then copy the connection's bytes both ways unseen, past the path gate and the header rewriting)", "C19-RC": "class rules (error chains, shadowed results, character classes, crossed arguments, pool constructors, array pools, loop completeness, loop-carried buffers, replacing setters, complete clones, Grow arithmetic, pooled-buffer escape, sorted searches, fresh decode targets, per-iteration objects, whole-message copies, codec guards) over the packages this property rests on", "C19-R5": "websvc.New: the linked-IP listeners' handler is the proxy gate itself, built for the configured target (nothing is routed around it)",
				"C19-R1": "ServeHTTP gate and header effects", "C19-R2": "shouldProxy decision table incl. dot segments and split limit",
				"C19-R3": "ReverseProxy literal: Rewrite, not Director; Rewrite's effects",
				"C19-R4": "the client-IP header is (re-)set on the outgoing request inside Rewrite, i.e. after httputil has removed the hop-by-hop headers that the client's Connection header names",
			},
		}})
}

func runC19(c *an.Ctx) {
	// ---- R9: unproxied requests get a 404 made in place
	c.Floor("C19-R9", 1)
	c19LocalNotFound(c, "C19-R9")
	// ---- R7: the peer address is never rewritten; R8: the proxy's transport follows no redirects
	c19PeerAddrUntouched(c, "C19-R7")
	c.Floor("C19-R8", 1)
	c19PlainTransport(c, "C19-R8")
	// ---- R6: no protocol switch through the proxy
	c.Floor("C19-R6", 1)
	c19NoUpgrade(c, "C19-R6")
	classSweep(c, "C19")
	c19Servers(c)
	c.Floor("C19-R1", 1)
	c.Floor("C19-R2", 1)
	c.Floor("C19-R3", 2)

	hdr := func(name string) string {
		v, ok := c.ConstStr("github.com/AdguardTeam/golibs/httphdr", name)
		if !ok {
			c.Und("C19-R1", "httphdr."+name, token.NoPos, "constant not found")
		}
		return strconv.Quote(v)
	}
	cf, fwd, tci, xreal, xconn := hdr("CFConnectingIP"), hdr("Forwarded"), hdr("TrueClientIP"), hdr("XRealIP"), hdr("XConnectingIP")

	// ---- R1
	decide(c, "C19-R1", "websvc.(*linkedIPProxy).ServeHTTP", an.DecideCfg{
		Dom: an.Domain{"should": an.Bools, "spliterr": an.Bools, "(p2.URL.Path == \"/robots.txt\")": an.Bools},
		OnCall: func(it *an.Interp, name string, args []an.AV) (an.AV, bool) {
			switch {
			case strings.HasSuffix(name, "websvc.shouldProxy"):
				if len(args) == 2 && args[0].String() == "p2.Method" && args[1].String() == "p2.URL.Path" {
					return it.Feature("should"), true
				}
				return an.Sym("shouldProxy called with something other than the request's method and URL path"), true
			case strings.HasSuffix(name, "netutil.SplitHost"):
				if it.Feature("spliterr").IsTrue() {
					return an.AV{Kind: an.KTuple, Tup: []an.AV{an.CStr(""), an.NonNil("splitErr")}}, true
				}
				return an.AV{Kind: an.KTuple, Tup: []an.AV{an.Sym("host(" + args[0].String() + ")"), an.Nil()}}, true
			case strings.HasSuffix(name, "(*net/http.Request).WithContext"):
				return an.NonNil("r2(" + args[0].String() + ")"), true
			}
			return an.AV{}, false
		},
		Expect: func(f an.Features, o an.AOutcome) string {
			var dels, sets, adds, proxied []string
			for _, e := range o.Effects {
				if e.Kind != "call" {
					continue
				}
				switch {
				case e.Name == "(net/http.Header).Del" && len(e.Args) == 2 && e.Args[0] == "p2.Header":
					dels = append(dels, e.Args[1])
				case e.Name == "(net/http.Header).Set" && len(e.Args) == 3 && e.Args[0] == "p2.Header":
					sets = append(sets, e.Args[1]+"="+e.Args[2])
				case e.Name == "(net/http.Header).Add" && len(e.Args) == 3 && e.Args[0] == "p2.Header":
					adds = append(adds, e.Args[1]+"="+e.Args[2])
				case strings.HasSuffix(e.Name, "ReverseProxy).ServeHTTP"):
					proxied = append(proxied, strings.Join(e.Args, ","))
				}
			}
			if !f.B("should") || f.B("spliterr") {
				if len(proxied) == 0 {
					return ""
				}
				return "no backend contact"
			}
			if len(proxied) != 1 {
				return "exactly one proxied request"
			}
			for _, h := range []string{cf, fwd, tci, xreal} {
				found := false
				for _, d := range dels {
					if d == h {
						found = true
					}
				}
				if !found {
					return "header " + h + " to be deleted before proxying"
				}
			}
			okConn := false
			for _, s := range sets {
				if s == xconn+"=host(p2.RemoteAddr)" {
					okConn = true
				}
			}
			for _, a := range adds {
				if strings.HasPrefix(a, xconn+"=") {
					return "X-Connecting-IP to be Set (replacing client values), not added"
				}
			}
			if !okConn {
				return "X-Connecting-IP set to the host of RemoteAddr; got " + fmt.Sprint(sets)
			}
			return ""
		},
	})

	// ---- R2
	splitLimit := int64(-99)
	maxAccepted := int64(0)
	decide(c, "C19-R2", "websvc.shouldProxy", an.DecideCfg{
		Dom: an.Domain{
			"p0":                an.Strs("GET", "POST", "PUT", "HEAD", "DELETE"),
			"len(nonnil:parts)": an.Ints(1, 2, 3, 4, 5, 6),
			"nonnil:parts[0]":   an.Strs("linkip", "ddns", "other"),
			"nonnil:parts[3]":   an.Strs("status", "x"),
			"dot":               an.Bools, "dotdot": an.Bools,
		},
		Inline: inlinePkgs([]string{"websvc.shouldProxy"}),
		OnCall: func(it *an.Interp, name string, args []an.AV) (an.AV, bool) {
			switch {
			case name == "strings.TrimPrefix":
				if len(args) == 2 && args[0].String() == "p1" && args[1].String() == `"/"` {
					return an.Sym("trimmed"), true
				}
			case name == "strings.SplitN" || name == "strings.Split":
				if len(args) >= 2 && args[0].String() == "trimmed" && args[1].String() == `"/"` {
					splitLimit = -1
					if len(args) == 3 && args[2].Kind == an.KConst {
						splitLimit = an.Env{"n": args[2]}.I("n")
					}
					return an.NonNil("parts"), true
				}
				return an.Sym("path split differently"), true
			case strings.HasPrefix(name, "slices.Contains"):
				if len(args) == 2 && args[0].String() == "nonnil:parts" {
					switch args[1].String() {
					case `"."`:
						return it.Feature("dot"), true
					case `".."`:
						return it.Feature("dotdot"), true
					}
				}
			}
			return an.AV{}, false
		},
		Expect: func(f an.Features, o an.AOutcome) string {
			n := f.I("len(nonnil:parts)")
			want := false
			if n == 3 || n == 4 {
				if !f.B("dot") && !f.B("dotdot") {
					first := f.S("nonnil:parts[0]")
					switch f.S("p0") {
					case "GET":
						want = first == "linkip" && (n == 3 || (n == 4 && f.S("nonnil:parts[3]") == "status"))
					case "POST":
						want = (first == "ddns" && n == 4) || (first == "linkip" && n == 3)
					}
				}
			}
			if o.Exit == "return" && o.RetString() == "true" && n > maxAccepted {
				maxAccepted = n
			}
			if o.Exit == "return" && o.RetString() == fmt.Sprint(want) {
				return ""
			}
			return fmt.Sprint(want) + " (only the four documented shapes, no dot segments)"
		},
	})
	if fn := c.Fn("websvc.shouldProxy"); fn != nil {
		switch {
		case splitLimit == -99:
			c.Und("C19-R2", "websvc.shouldProxy split limit", fn.Pos(), "the path is not split with strings.SplitN/Split on \"/\" after trimming one leading slash")
		case splitLimit > 0 && splitLimit <= maxAccepted:
			c.Bad("C19-R2", "websvc.shouldProxy split limit", fn.Pos(),
				"the path is split into at most %d parts but shapes with %d parts are accepted: the last accepted segment can contain further slashes (extra or dot segments reach the backend)", splitLimit, maxAccepted)
		default:
			c.Ok("C19-R2", "websvc.shouldProxy split limit", fn.Pos(), "split limit %d exceeds the longest accepted shape (%d segments)", splitLimit, maxAccepted)
		}
	}

	// ---- R3
	if fn := c.Fn("websvc.linkedIPHandler"); fn == nil {
		c.Und("C19-R3", "websvc.linkedIPHandler", token.NoPos, "anchor not found")
	} else {
		c.Analysed("websvc.linkedIPHandler")
		hasRewrite, hasDirector := false, false
		var rewriteFn *ssa.Function
		an.Instrs(fn, func(in ssa.Instruction) {
			st, ok := in.(*ssa.Store)
			if !ok {
				return
			}
			typ, field, _, ok := an.FieldOf(st.Addr)
			if !ok || typ != "net/http/httputil.ReverseProxy" {
				return
			}
			switch field {
			case "Rewrite":
				if !an.IsNilConst(st.Val) {
					hasRewrite = true
					if mc, ok := st.Val.(*ssa.MakeClosure); ok {
						rewriteFn, _ = mc.Fn.(*ssa.Function)
					}
				}
			case "Director":
				if !an.IsNilConst(st.Val) {
					hasDirector = true
				}
			}
		})
		c.Check(hasRewrite && !hasDirector, "C19-R3", "websvc.linkedIPHandler ReverseProxy literal", fn.Pos(),
			"the proxy is built with Rewrite and without Director (client-supplied Forwarded / X-Forwarded-* are stripped by httputil)",
			"the proxy is not built with Rewrite only: with Director client-supplied X-Forwarded-* headers are forwarded")
		if rewriteFn == nil {
			c.Und("C19-R3", "websvc.linkedIPHandler Rewrite", fn.Pos(), "Rewrite is not a closure of linkedIPHandler")
		} else {
			bad := ""
			setURL := false
			for _, call := range an.Calls(rewriteFn) {
				n := an.Short(an.CalleeName(call))
				switch {
				case n == "(*net/http/httputil.ProxyRequest).SetURL":
					if _, isFV := call.Common().Args[1].(*ssa.UnOp); isFV || isFreeVar(call.Common().Args[1]) {
						setURL = true
					} else {
						bad = "SetURL with a value other than the configured target"
					}
				case n == "(*net/http/httputil.ProxyRequest).SetXForwarded":
					bad = "SetXForwarded adds forwarding headers"
				case n == "(net/http.Header).Set", n == "(net/http.Header).Get", n == "agdhttp.UserAgent":
				case strings.HasPrefix(n, "(net/http.Header)."):
					bad = "header manipulation " + n
				}
			}
			// the outgoing URL and host come from SetURL(target) alone: no other
			// store under r.Out (Host excepted) and no URL re-parsing
			an.Instrs(rewriteFn, func(in ssa.Instruction) {
				st, ok := in.(*ssa.Store)
				if !ok {
					return
				}
				if ap, ok := an.AccessPath(st.Addr); ok && strings.Contains(ap, ".Out.") && !strings.HasSuffix(ap, ".Out.Host") {
					bad = "store to " + ap + " (the outgoing URL must be the one SetURL derives from the inbound path)"
				}
			})
			for _, call := range an.Calls(rewriteFn) {
				if callee := an.StaticCallee(call); callee != nil && callee.Pkg != nil && callee.Pkg.Pkg.Path() == "net/url" {
					bad = "call of " + an.Short(an.CalleeName(call)) + " (re-parsing an already decoded path decodes it twice)"
				}
			}
			c19OutHeaders(c, rewriteFn)
			c.Check(setURL && bad == "", "C19-R3", "websvc.linkedIPHandler Rewrite", rewriteFn.Pos(),
				"Rewrite routes to the configured target with SetURL and only sets Host and User-Agent",
				"Rewrite does more than SetURL(target) + Host/User-Agent: "+bad)
		}
	}
}

func isFreeVar(v ssa.Value) bool {
	_, ok := v.(*ssa.FreeVar)
	return ok
}

// c19OutHeaders checks that the header carrying the connecting peer's address
// is set on the *outgoing* request in the Rewrite function.  httputil's
// ReverseProxy clones the inbound request, deletes from the clone every header
// named in the client's Connection header, and only then calls Rewrite; a header
// that the handler set on the inbound request alone can therefore be removed by
// the client ("Connection: X-Connecting-Ip").
func c19OutHeaders(c *an.Ctx, rewriteFn *ssa.Function) {
	c.Floor("C19-R4", 1)
	want, _ := c.ConstStr("github.com/AdguardTeam/golibs/netutil/httputil/httphdr", "XConnectingIP")
	if want == "" {
		want = "X-Connecting-Ip"
	}
	keys := map[string]bool{}
	addConst := func(v ssa.Value) {
		if k, ok := v.(*ssa.Const); ok && k.Value != nil && k.Value.Kind() == constant.String {
			keys[strings.ToLower(constant.StringVal(k.Value))] = true
		}
	}
	for _, call := range an.Calls(rewriteFn) {
		if an.CalleeName(call) != "(net/http.Header).Set" {
			continue
		}
		args := call.Common().Args
		// the receiver must be the outgoing request's header
		if ap, ok := an.AccessPath(args[0]); !ok || !strings.Contains(ap, ".Out.Header") {
			continue
		}
		key := args[1]
		addConst(key)
		// a key taken from a ranged list of constants
		if ld, ok := key.(*ssa.UnOp); ok && ld.Op == token.MUL {
			if ia, ok := ld.X.(*ssa.IndexAddr); ok {
				base := ia.X
				if sl, ok := base.(*ssa.Slice); ok {
					base = sl.X
				}
				if base.Referrers() != nil {
					for _, r := range *base.Referrers() {
						if ia2, ok := r.(*ssa.IndexAddr); ok && ia2.Referrers() != nil {
							for _, rr := range *ia2.Referrers() {
								if st, ok := rr.(*ssa.Store); ok {
									addConst(st.Val)
								}
							}
						}
					}
				}
			}
		}
	}
	c.Check(keys[strings.ToLower(want)], "C19-R4", "websvc.linkedIPHandler Rewrite sets the client-IP header on the outgoing request", rewriteFn.Pos(),
		"the client-IP header is set on the outgoing request after the hop-by-hop headers were removed",
		"the client-IP header is only set on the inbound request: a client that sends \"Connection: "+want+"\" has it removed by httputil before Rewrite runs, and the backend gets a request without the connecting peer's address")
}

// c19Servers checks the wiring of the linked-IP listeners in websvc.New: the
// handler of every server built next to a linkedIPHandler call is that call's
// result itself (the gate of R1/R2 sees every request of the listener; nothing
// routes some paths around it or to the main service), and it is built for the
// configured target URL.
func c19Servers(c *an.Ctx) {
	c.Floor("C19-R5", 1)
	const k = "websvc.New"
	fn := c.Fn(k)
	if fn == nil {
		c.Und("C19-R5", k+" linked-IP servers", token.NoPos, "anchor not found")
		return
	}
	c.Analysed(k)
	var gates []*ssa.Call
	for _, call := range an.Calls(fn) {
		if cv, ok := call.(*ssa.Call); ok && strings.HasSuffix(an.CalleeName(call), "websvc.linkedIPHandler") {
			gates = append(gates, cv)
		}
	}
	if len(gates) == 0 {
		c.Und("C19-R5", k+" linked-IP servers", fn.Pos(), "no call of linkedIPHandler")
		return
	}
	for _, g := range gates {
		// target: the configured URL
		if ap, ok := an.AccessPath(g.Call.Args[0]); !ok || !strings.HasSuffix(ap, ".TargetURL") {
			c.Bad("C19-R5", k+" linked-IP proxy target", g.Pos(), "the proxy is built for %s instead of the configured target URL", ap)
		}
		// the result must be stored, as it is, into the Handler of a server; and into nothing else
		direct, other := 0, ""
		var walk func(v ssa.Value, d int)
		walk = func(v ssa.Value, d int) {
			if v.Referrers() == nil || d > 3 {
				return
			}
			for _, r := range *v.Referrers() {
				switch x := r.(type) {
				case *ssa.MakeInterface:
					walk(x, d+1)
				case *ssa.ChangeInterface:
					walk(x, d+1)
				case *ssa.Store:
					if typ, field, _, ok := an.FieldOf(x.Addr); ok && typ == "net/http.Server" && field == "Handler" {
						direct++
					} else {
						other = "stored elsewhere"
					}
				case ssa.CallInstruction:
					other = "handed to " + an.Short(an.CalleeName(x))
				}
			}
		}
		walk(g, 0)
		c.Check(direct == 1 && other == "", "C19-R5", k+" linked-IP listener serves through the proxy gate only", g.Pos(),
			"the server's Handler is the gate itself",
			fmt.Sprintf("the gate is not the listener's handler as such (%d direct uses; %s): requests can be routed around it or to the main service", direct, other))
	}
}

// c19NoUpgrade: httputil.ReverseProxy supports protocol switching: it puts
// "Connection: Upgrade" and the Upgrade header back on the outgoing request
// and, when the backend answers 101, hijacks the client connection and copies
// bytes in both directions without looking at them.  From then on any method,
// path and X-Connecting-IP reach the backend.  In linkedIPProxy.ServeHTTP a
// deletion of the Upgrade header of the inbound request dominates the call of
// the reverse proxy.
func c19NoUpgrade(c *an.Ctx, rule string) {
	k := "websvc.(*linkedIPProxy).ServeHTTP"
	fn := c.Prog.Fn(k)
	key := k + " deletes the Upgrade header before proxying"
	if fn == nil {
		c.Und(rule, key, token.NoPos, "anchor not found")
		return
	}
	c.Analysed(k)
	var proxy ssa.CallInstruction
	var dels []ssa.CallInstruction
	for _, call := range an.Calls(fn) {
		n := an.CalleeName(call)
		switch {
		case strings.HasSuffix(n, "httputil.ReverseProxy).ServeHTTP"):
			proxy = call
		case n == "(net/http.Header).Del" && len(call.Common().Args) == 2:
			if k, ok := call.Common().Args[1].(*ssa.Const); ok && k.Value != nil && k.Value.Kind() == constant.String && strings.EqualFold(constant.StringVal(k.Value), "Upgrade") {
				dels = append(dels, call)
			}
		}
	}
	if proxy == nil {
		c.Und(rule, key, fn.Pos(), "no call of the reverse proxy found")
		return
	}
	ok := false
	for _, d := range dels {
		if an.Dominates(d, proxy) {
			ok = true
		}
	}
	c.Check(ok, rule, key, proxy.Pos(), "Header.Del(\"Upgrade\") dominates the proxy call",
		"the inbound Upgrade header is still there when the request reaches httputil.ReverseProxy at "+c.Pos(proxy.Pos())+": with a backend (or a hop before it) that answers 101, the client gets a raw connection to the backend, on which any method, any path and a forged X-Connecting-IP pass")
}

// c19PeerAddrUntouched: linkedIPProxy.ServeHTTP reports r.RemoteAddr to the
// backend as the client's address.  No production code of websvc (or of the
// DoH server) stores into http.Request.RemoteAddr; a "real IP" wrapper that
// copies a header there lets the client choose the reported address.
func c19PeerAddrUntouched(c *an.Ctx, rule string) {
	n := 0
	for _, fn := range c.AllFns {
		k := an.FnKey(fn)
		if fn.Blocks == nil || c.IsTestFile(fn.Pos()) || !(strings.HasPrefix(k, "websvc.") || strings.HasPrefix(k, "dnsserver.")) {
			continue
		}
		n++
		an.Instrs(fn, func(in ssa.Instruction) {
			st, ok := in.(*ssa.Store)
			if !ok {
				return
			}
			if t, f, _, ok := an.FieldOf(st.Addr); ok && t == "net/http.Request" && f == "RemoteAddr" {
				c.Analysed(k)
				c.Bad(rule, k+" leaves the peer address of the request alone", st.Pos(),
					"http.Request.RemoteAddr is overwritten at %s: the address that the linked-IP proxy reports to the backend as X-Connecting-IP is no longer the connecting peer's", c.Pos(st.Pos()))
			}
		})
	}
	if n == 0 {
		c.Und(rule, "stores into http.Request.RemoteAddr", token.NoPos, "no function of websvc or dnsserver found")
		return
	}
	c.Ok(rule, "stores into http.Request.RemoteAddr", token.NoPos, "%d functions of websvc and dnsserver scanned", n)
}

// c19PlainTransport: httputil.ReverseProxy hands the backend's response, a 3xx
// included, back to the client when its Transport is an *http.Transport.  A
// RoundTripper built on http.Client follows redirects itself: the proxy then
// contacts paths outside the API, and other hosts, on its own and with the
// client's X-Connecting-IP.  The value stored into ReverseProxy.Transport in
// websvc is an *http.Transport.
func c19PlainTransport(c *an.Ctx, rule string) {
	n := 0
	for _, fn := range c.AllFns {
		k := an.FnKey(fn)
		if fn.Blocks == nil || c.IsTestFile(fn.Pos()) || !strings.HasPrefix(k, "websvc.") {
			continue
		}
		an.Instrs(fn, func(in ssa.Instruction) {
			st, ok := in.(*ssa.Store)
			if !ok {
				return
			}
			t, f, _, ok := an.FieldOf(st.Addr)
			if !ok || t != "net/http/httputil.ReverseProxy" || f != "Transport" {
				return
			}
			n++
			c.Analysed(k)
			typ := st.Val.Type().String()
			if mi, isMI := st.Val.(*ssa.MakeInterface); isMI {
				typ = mi.X.Type().String()
			}
			c.Check(typ == "*net/http.Transport", rule, k+": the reverse proxy uses a plain http.Transport", st.Pos(), "Transport is "+typ,
				"the reverse proxy's Transport is "+typ+", not *net/http.Transport: a round tripper that follows redirects (http.Client) makes the proxy contact whatever path or host the backend's Location names")
		})
	}
	if n == 0 {
		c.Und(rule, "ReverseProxy.Transport", token.NoPos, "no store into httputil.ReverseProxy.Transport found in websvc")
	}
}

// c19LocalNotFound: in linkedIPProxy.ServeHTTP the only handler a request is
// handed to is the reverse proxy; everything else ends in http.NotFound (or the
// robots helper).  An invoke of ServeHTTP on any other value forwards unproxied
// requests to code that may answer them.
func c19LocalNotFound(c *an.Ctx, rule string) {
	k := "websvc.(*linkedIPProxy).ServeHTTP"
	fn := c.Prog.Fn(k)
	key := k + " answers unproxied requests with its own 404"
	if fn == nil {
		c.Und(rule, key, token.NoPos, "anchor not found")
		return
	}
	c.Analysed(k)
	notFound, bad := false, ""
	for _, call := range an.Calls(fn) {
		n := an.CalleeName(call)
		switch {
		case n == "net/http.NotFound":
			notFound = true
		case call.Common().IsInvoke() && call.Common().Method.Name() == "ServeHTTP":
			bad = "a request is handed to " + call.Common().Value.Type().String() + " at " + c.Pos(call.Pos())
		case strings.HasSuffix(n, ").ServeHTTP") && !strings.HasSuffix(n, "httputil.ReverseProxy).ServeHTTP"):
			bad = "a request is handed to " + an.Short(n) + " at " + c.Pos(call.Pos())
		}
	}
	c.Check(notFound && bad == "", rule, key, fn.Pos(), "http.NotFound is the only answer to unproxied requests",
		bad+": requests that are not the four API shapes are no longer answered with a plain 404 on the linked-IP addresses")
}
