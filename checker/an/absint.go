package an

import (
	"fmt"
	"go/constant"
	"go/token"
	"go/types"
	"sort"
	"strings"

	"golang.org/x/tools/go/ssa"
)

// Engine A: abstract interpretation of (mostly) loop-free decision code over a
// finite feature abstraction.  The rule supplies, for every feature the code
// may branch on (an access path, the length of a slice, the boolean result of
// an opaque call, a comparison of two opaque values), a finite list of
// representative abstract values; every branch condition is uniform on such a
// valuation, so one abstract run per valuation yields the exact outcome
// (returned constants / nil-ness / which opaque value is returned, and the
// sequence of opaque calls and stores performed).  A branch on anything the
// valuation does not determine makes the run UNDECIDED.

// AVKind is the kind of an abstract value.
type AVKind int

// Abstract value kinds.
const (
	KSym    AVKind = iota // opaque value identified by Key
	KConst                // known constant C
	KNil                  // nil pointer/interface/slice/map/func
	KNonNil               // some non-nil reference identified by Key
	KAddr                 // address of memory cell Key
	KTuple
	KSlice // slice of a local array with known elements Tup (variadic arguments)
)

// AV is an abstract value.
type AV struct {
	Kind AVKind
	C    constant.Value
	Key  string
	Tup  []AV
	Dyn  string // dynamic type (Short TypeString) when the value is an interface holding a known concrete type
}

// Sym returns an opaque value.
func Sym(key string) AV { return AV{Kind: KSym, Key: key} }

// CBool, CInt, CStr build constants.
func CBool(b bool) AV  { return AV{Kind: KConst, C: constant.MakeBool(b)} }
func CInt(i int64) AV  { return AV{Kind: KConst, C: constant.MakeInt64(i)} }
func CStr(s string) AV { return AV{Kind: KConst, C: constant.MakeString(s)} }

// Nil and NonNil build reference abstractions.
func Nil() AV                    { return AV{Kind: KNil} }
func NonNil(key string) AV       { return AV{Kind: KNonNil, Key: key} }
func (a AV) withDyn(d string) AV { a.Dyn = d; return a }

// String renders the value for outcome comparison.
func (a AV) String() string {
	switch a.Kind {
	case KConst:
		if a.C == nil {
			return "const?"
		}
		if a.C.Kind() == constant.String {
			return fmt.Sprintf("%q", constant.StringVal(a.C))
		}
		return a.C.ExactString()
	case KNil:
		return "nil"
	case KNonNil:
		return "nonnil:" + a.Key
	case KAddr:
		return "&" + a.Key
	case KSlice:
		return a.Key

	default:
		return a.Key
	}
}

// IsTrue / IsFalse report constant booleans.
func (a AV) IsTrue() bool {
	return a.Kind == KConst && a.C != nil && a.C.Kind() == constant.Bool && constant.BoolVal(a.C)
}
func (a AV) IsFalse() bool {
	return a.Kind == KConst && a.C != nil && a.C.Kind() == constant.Bool && !constant.BoolVal(a.C)
}

// Effect is an observable action of an abstract run.
type Effect struct {
	Kind string // call | store | go | defer | panic
	Name string // callee (Short) or stored-to key
	Args []string
	Pos  token.Pos
}

func (e Effect) String() string {
	return e.Kind + " " + e.Name + "(" + strings.Join(e.Args, ", ") + ")"
}

// Env is a feature valuation.
type Env map[string]AV

// Interp is one abstract run configuration.
type Interp struct {
	P   *Prog
	Env Env
	// Dom lists the features that may be consulted; consulting one that Env
	// does not assign aborts the run with Exit "need" (lazy valuation).
	Dom Domain
	// StopAt lists opaque callees at which a run ends with Exit "stop:<name>"
	// (blocking calls such as Cond.Wait that close a loop).
	StopAt map[string]bool
	// OnCall, if set, may supply the abstract result of an opaque call.
	OnCall func(it *Interp, name string, args []AV) (AV, bool)
	// Inline decides whether a static callee is interpreted (true) or kept
	// opaque (false).
	Inline func(callee *ssa.Function) bool
	// NonNilCalls lists callees (Short names) whose (first) result is a
	// non-nil reference.
	NonNilCalls map[string]bool
	MaxSteps    int

	Effects  []Effect
	Und      string
	UndCond  string // key of the undetermined branch condition, if that is why the run is undecided
	Used     map[string]bool
	steps    int
	allocN   int
	mem      map[string]AV
	closures map[string]closureVal
	depth    int
	inlined  map[string]bool
}

// Outcome is the result of one run.
type AOutcome struct {
	Exit    string // return | panic | undecided | need
	Need    string // feature that must be assigned (Exit == need)
	Ret     []AV
	Effects []Effect
	Und     string
	Mem     map[string]AV // abstract memory at exit (local cells and stored fields)
}

// RetString renders the returned values.
func (o AOutcome) RetString() string {
	var ss []string
	for _, r := range o.Ret {
		ss = append(ss, r.String())
	}
	return strings.Join(ss, ", ")
}

// Calls returns the names of the opaque calls performed, in order.
func (o AOutcome) Calls() (ns []string) {
	for _, e := range o.Effects {
		if e.Kind == "call" || e.Kind == "go" || e.Kind == "defer" {
			ns = append(ns, e.Name)
		}
	}
	return ns
}

// HasCall reports whether an opaque call to name was performed.
func (o AOutcome) HasCall(name string) bool {
	for _, n := range o.Calls() {
		if n == name {
			return true
		}
	}
	return false
}

// CallIndex returns the position of the first call to name, or -1.
func (o AOutcome) CallIndex(name string) int {
	for i, n := range o.Calls() {
		if n == name {
			return i
		}
	}
	return -1
}

// Stores returns "key=value" for each store effect.
func (o AOutcome) Stores() (ss []string) {
	for _, e := range o.Effects {
		if e.Kind == "store" {
			ss = append(ss, e.Name+"="+strings.Join(e.Args, ","))
		}
	}
	return ss
}

// closureVal is a closure created during a run: its function and bound values.
type closureVal struct {
	fn       *ssa.Function
	bindings []AV
}

type frame struct {
	fn     *ssa.Function
	vals   map[ssa.Value]AV
	defers []*ssa.Defer
	iters  map[*ssa.Next]int
}

// Run interprets fn with the given argument values (nil args default to
// opaque values named p0, p1, …, receiver first).
func (it *Interp) Run(fn *ssa.Function, args []AV) AOutcome {
	if it.MaxSteps == 0 {
		it.MaxSteps = 20000
	}
	it.Used = map[string]bool{}
	it.mem = map[string]AV{}
	it.Effects = nil
	it.Und = ""
	it.UndCond = ""
	it.steps = 0
	var ret []AV
	var exit string
	need := ""
	func() {
		defer func() {
			if r := recover(); r != nil {
				if nf, ok := r.(needFeature); ok {
					need = nf.key
					return
				}
				if sr, ok := r.(stopRun); ok {
					exit = "stop:" + sr.name
					return
				}
				panic(r)
			}
		}()
		if args == nil {
			for i := range fn.Params {
				args = append(args, it.lookup(fmt.Sprintf("p%d", i)))
			}
		}
		ret, exit = it.call(fn, args, nil)
	}()
	if need != "" {
		return AOutcome{Exit: "need", Need: need}
	}
	if it.Und != "" {
		return AOutcome{Exit: "undecided", Und: it.Und, Effects: it.Effects}
	}
	return AOutcome{Exit: exit, Ret: ret, Effects: it.Effects, Mem: it.mem}
}

func (it *Interp) und(format string, args ...any) {
	if it.Und == "" {
		it.Und = fmt.Sprintf(format, args...)
	}
}

// lookup returns the valuation of key, or an opaque value.
func (it *Interp) lookup(key string) AV {
	if v, ok := it.envGet(key); ok {
		return v
	}
	return Sym(key)
}

type needFeature struct{ key string }

type stopRun struct{ name string }

// envGet returns the valuation of key if it is a feature.
func (it *Interp) envGet(key string) (AV, bool) {
	if v, ok := it.Env[key]; ok {
		it.Used[key] = true
		if v.Kind == KNonNil && v.Key == "" {
			v.Key = key
		}
		return v, true
	}
	if _, ok := it.Dom[key]; ok {
		panic(needFeature{key})
	}
	return AV{}, false
}

// Feature returns the value of feature key (for OnCall hooks); the key must be
// in the domain.
func (it *Interp) Feature(key string) AV {
	v, ok := it.envGet(key)
	if !ok {
		panic("adgverif: feature " + key + " is not in the rule's domain")
	}
	return v
}

func (it *Interp) call(fn *ssa.Function, args []AV, bindings []AV) (ret []AV, exit string) {
	it.depth++
	defer func() { it.depth-- }()
	if it.depth > 8 {
		it.und("inlining depth exceeded at %s", FnKey(fn))
		return nil, "undecided"
	}
	fr := &frame{fn: fn, vals: map[ssa.Value]AV{}}
	for i, p := range fn.Params {
		if i < len(args) {
			fr.vals[p] = args[i]
		} else {
			fr.vals[p] = Sym(p.Name())
		}
	}
	for i, fv := range fn.FreeVars {
		if i < len(bindings) {
			fr.vals[fv] = bindings[i]
		} else {
			fr.vals[fv] = Sym("fv:" + fv.Name())
		}
	}
	var prev *ssa.BasicBlock
	b := fn.Blocks[0]
	for {
		var next *ssa.BasicBlock
		for _, in := range b.Instrs {
			it.steps++
			if it.steps > it.MaxSteps {
				it.und("step bound exceeded in %s (loop?)", FnKey(fn))
				return nil, "undecided"
			}
			if it.Und != "" {
				return nil, "undecided"
			}
			switch x := in.(type) {
			case *ssa.Phi:
				for i, p := range b.Preds {
					if p == prev {
						fr.vals[x] = it.val(fr, x.Edges[i])
					}
				}
			case *ssa.If:
				c := it.val(fr, x.Cond)
				switch {
				case c.IsTrue():
					next = b.Succs[0]
				case c.IsFalse():
					next = b.Succs[1]
				default:
					// a condition outside the rule's feature model: the caller may
					// explore both outcomes as a free atom
					if v, ok := it.Env["free:"+c.String()]; ok && (v.IsTrue() || v.IsFalse()) {
						if v.IsTrue() {
							next = b.Succs[0]
						} else {
							next = b.Succs[1]
						}
						break
					}
					it.UndCond = c.String()
					it.und("branch at %s in %s on a condition the valuation does not determine: %s",
						it.P.Pos(condPos(x)), FnKey(fn), c.String())
					return nil, "undecided"
				}
			case *ssa.Jump:
				next = b.Succs[0]
			case *ssa.Return:
				for _, r := range x.Results {
					ret = append(ret, it.val(fr, r))
				}
				return ret, "return"
			case *ssa.Panic:
				it.Effects = append(it.Effects, Effect{Kind: "panic", Name: it.val(fr, x.X).String(), Pos: x.Pos()})
				return nil, "panic"
			case *ssa.RunDefers:
				for i := len(fr.defers) - 1; i >= 0; i-- {
					it.doCall(fr, fr.defers[i], true)
				}
			case *ssa.Defer:
				fr.defers = append(fr.defers, x)
			case *ssa.Go:
				it.Effects = append(it.Effects, Effect{Kind: "go", Name: it.calleeKey(fr, x), Args: it.argKeys(fr, x), Pos: x.Pos()})
			case *ssa.Store:
				addr := it.val(fr, x.Addr)
				v := it.val(fr, x.Val)
				if addr.Kind == KAddr {
					it.mem[addr.Key] = v
					if !strings.HasPrefix(addr.Key, "local#") {
						it.Effects = append(it.Effects, Effect{Kind: "store", Name: addr.Key, Args: []string{v.String()}, Pos: x.Pos()})
					}
				} else {
					it.Effects = append(it.Effects, Effect{Kind: "store", Name: "*" + addr.String(), Args: []string{v.String()}, Pos: x.Pos()})
				}
			case *ssa.MapUpdate:
				it.Effects = append(it.Effects, Effect{Kind: "store", Name: it.val(fr, x.Map).String() + "[" + it.val(fr, x.Key).String() + "]",
					Args: []string{it.val(fr, x.Value).String()}, Pos: x.Pos()})
			case *ssa.Send:
				it.Effects = append(it.Effects, Effect{Kind: "call", Name: "chan send", Pos: x.Pos()})
			case *ssa.DebugRef:
			case *ssa.Call:
				fr.vals[x] = it.doCall(fr, x, false)
			case ssa.Value:
				fr.vals[x] = it.compute(fr, x)
			default:
				it.und("unhandled instruction %T in %s", in, FnKey(fn))
				return nil, "undecided"
			}
		}
		if next == nil {
			it.und("fell off block %d of %s", b.Index, FnKey(fn))
			return nil, "undecided"
		}
		prev, b = b, next
	}
}

func condPos(x *ssa.If) token.Pos {
	if p := x.Cond.Pos(); p.IsValid() {
		return p
	}
	if in, ok := x.Cond.(ssa.Instruction); ok {
		for _, op := range in.Operands(nil) {
			if *op != nil && (*op).Pos().IsValid() {
				return (*op).Pos()
			}
		}
	}
	return x.Pos()
}

// val returns the abstract value of v in frame fr.
func (it *Interp) val(fr *frame, v ssa.Value) AV {
	if a, ok := fr.vals[v]; ok {
		return a
	}
	switch x := v.(type) {
	case *ssa.Const:
		return constAV(x)
	case *ssa.Global:
		return AV{Kind: KAddr, Key: globalKey(x)}
	case *ssa.Function:
		return NonNil("func:" + Short(FullName(x)))
	case *ssa.Builtin:
		return NonNil("builtin:" + x.Name())
	case *ssa.Parameter, *ssa.FreeVar:
		return Sym(x.Name())
	}
	// value defined in a block not executed on this path (should not happen)
	return Sym("?" + v.Name())
}

func globalKey(g *ssa.Global) string {
	pkg := ""
	if g.Pkg != nil {
		pkg = Short(g.Pkg.Pkg.Path()) + "."
	}
	return pkg + g.Name()
}

func constAV(c *ssa.Const) AV {
	if c.Value == nil {
		switch c.Type().Underlying().(type) {
		case *types.Basic:
			// zero of a basic type cannot be nil; untyped nil handled below
		case *types.Struct, *types.Array:
			return Sym("zero:" + Short(c.Type().String()))
		default:
			return Nil()
		}
		return Nil()
	}
	return AV{Kind: KConst, C: c.Value}
}

func (it *Interp) argKeys(fr *frame, c ssa.CallInstruction) (ks []string) {
	for _, a := range c.Common().Args {
		ks = append(ks, it.val(fr, a).String())
	}
	return ks
}

func (it *Interp) calleeKey(fr *frame, c ssa.CallInstruction) string {
	cc := c.Common()
	if cc.IsInvoke() {
		return it.val(fr, cc.Value).String() + "." + cc.Method.Name()
	}
	if f := StaticCallee(c); f != nil {
		return Short(FullName(f))
	}
	if b, ok := cc.Value.(*ssa.Builtin); ok {
		return "builtin." + b.Name()
	}
	return "dyn:" + it.val(fr, cc.Value).String()
}

// doCall handles a call-like instruction and returns its abstract result.
func (it *Interp) doCall(fr *frame, c ssa.CallInstruction, deferred bool) AV {
	cc := c.Common()
	var args []AV
	for _, a := range cc.Args {
		args = append(args, it.val(fr, a))
	}
	// builtins
	if b, ok := cc.Value.(*ssa.Builtin); ok {
		return it.builtin(fr, b, c, args)
	}
	callee := StaticCallee(c)
	if callee != nil && callee.Blocks != nil && it.Inline != nil && it.Inline(callee) {
		var bindings []AV
		if mc, ok := cc.Value.(*ssa.MakeClosure); ok {
			for _, b := range mc.Bindings {
				bindings = append(bindings, it.val(fr, b))
			}
		}
		if it.inlined != nil {
			it.inlined[FnKey(callee)] = true
		}
		ret, exit := it.call(callee, args, bindings)
		if exit == "panic" {
			it.und("inlined callee %s panics", FnKey(callee))
		}
		if len(ret) == 1 {
			return ret[0]
		}
		return AV{Kind: KTuple, Tup: ret}
	}
	// a call through a function value that is a closure created during this run
	if callee == nil && !cc.IsInvoke() && !deferred {
		if fv := it.val(fr, cc.Value); fv.Kind == KNonNil && strings.HasPrefix(fv.Key, "closure:") {
			if cv, ok := it.closures[fv.Key]; ok && cv.fn != nil && cv.fn.Blocks != nil && it.Inline != nil && it.Inline(cv.fn) {
				if it.inlined != nil {
					it.inlined[FnKey(cv.fn)] = true
				}
				ret, exit := it.call(cv.fn, args, cv.bindings)
				if exit == "panic" {
					it.und("inlined closure %s panics", FnKey(cv.fn))
				}
				if len(ret) == 1 {
					return ret[0]
				}
				return AV{Kind: KTuple, Tup: ret}
			}
		}
	}
	name := it.calleeKey(fr, c)
	var aks []string
	for _, a := range args {
		aks = append(aks, a.String())
	}
	kind := "call"
	if deferred {
		kind = "defer"
	}
	it.Effects = append(it.Effects, Effect{Kind: kind, Name: name, Args: aks, Pos: c.Pos()})
	if it.StopAt[name] && !deferred {
		panic(stopRun{name})
	}
	if it.OnCall != nil {
		if v, ok := it.OnCall(it, name, args); ok {
			return v
		}
	}
	key := name + "(" + strings.Join(aks, ", ") + ")"
	res := cc.Signature().Results()
	mk := func(k string, t types.Type) AV {
		if v, ok := it.envGet(k); ok {
			return v
		}
		if it.NonNilCalls[name] {
			return NonNil(k)
		}
		return Sym(k)
	}
	switch res.Len() {
	case 0:
		return AV{Kind: KTuple}
	case 1:
		return mk(key, res.At(0).Type())
	default:
		t := AV{Kind: KTuple}
		for i := 0; i < res.Len(); i++ {
			k := fmt.Sprintf("%s#%d", key, i)
			if v, ok := it.envGet(k); ok {
				t.Tup = append(t.Tup, v)
			} else {
				t.Tup = append(t.Tup, Sym(k))
			}
		}
		return t
	}
}

func (it *Interp) builtin(fr *frame, b *ssa.Builtin, c ssa.CallInstruction, args []AV) AV {
	switch b.Name() {
	case "len", "cap":
		a := args[0]
		if a.Kind == KConst && a.C.Kind() == constant.String {
			return CInt(int64(len(constant.StringVal(a.C))))
		}
		if a.Kind == KNil {
			return CInt(0)
		}
		if a.Kind == KSlice {
			return CInt(int64(len(a.Tup)))
		}
		return it.lookup(b.Name() + "(" + a.String() + ")")
	case "min", "max":
		allConst := true
		for _, a := range args {
			if a.Kind != KConst {
				allConst = false
			}
		}
		if allConst && len(args) > 0 {
			best := args[0]
			for _, a := range args[1:] {
				lt := constant.Compare(a.C, token.LSS, best.C)
				if (b.Name() == "min") == lt {
					best = a
				}
			}
			return best
		}
	}
	if b.Name() == "append" && len(args) == 2 && args[1].Kind == KSlice && (args[0].Kind == KNil || args[0].Kind == KSlice) {
		sl := AV{Kind: KSlice}
		sl.Tup = append(append(sl.Tup, args[0].Tup...), args[1].Tup...)
		var es []string
		for _, e := range sl.Tup {
			es = append(es, e.String())
		}
		sl.Key = "[" + strings.Join(es, ", ") + "]"
		return sl
	}
	var aks []string
	for _, a := range args {
		aks = append(aks, a.String())
	}
	if b.Name() != "len" {
		it.Effects = append(it.Effects, Effect{Kind: "call", Name: "builtin." + b.Name(), Args: aks, Pos: c.Pos()})
	}
	return it.lookup("builtin." + b.Name() + "(" + strings.Join(aks, ", ") + ")")
}

// compute evaluates a non-call value instruction.
func (it *Interp) compute(fr *frame, v ssa.Value) AV {
	switch x := v.(type) {
	case *ssa.Alloc:
		it.allocN++
		return AV{Kind: KAddr, Key: fmt.Sprintf("local#%d", it.allocN)}
	case *ssa.FieldAddr:
		base := it.val(fr, x.X)
		st, _ := Deref(x.X.Type()).Underlying().(*types.Struct)
		f := "?"
		if st != nil {
			f = st.Field(x.Field).Name()
		}
		switch base.Kind {
		case KAddr:
			return AV{Kind: KAddr, Key: base.Key + "." + f}
		case KNil:
			it.und("field address of nil pointer at %s", it.P.Pos(x.Pos()))
			return Sym("?")
		default:
			return AV{Kind: KAddr, Key: base.Key + "." + f}
		}
	case *ssa.Field:
		base := it.val(fr, x.X)
		st, _ := x.X.Type().Underlying().(*types.Struct)
		f := "?"
		if st != nil {
			f = st.Field(x.Field).Name()
		}
		if base.Kind == KTuple || base.Kind == KConst {
			return Sym(base.String() + "." + f)
		}
		return it.lookup(base.Key + "." + f)
	case *ssa.IndexAddr:
		base := it.val(fr, x.X)
		i := it.val(fr, x.Index)
		if base.Kind == KSlice && i.Kind == KConst {
			if n, ok := constant.Int64Val(constant.ToInt(i.C)); ok && n >= 0 && int(n) < len(base.Tup) {
				k := fmt.Sprintf("elem#%d@%d", n, it.allocN)
				it.allocN++
				it.mem[k] = base.Tup[n]
				return AV{Kind: KAddr, Key: k}
			}
		}
		return AV{Kind: KAddr, Key: strings.TrimPrefix(base.String(), "&") + "[" + i.String() + "]"}
	case *ssa.Index:
		base := it.val(fr, x.X)
		i := it.val(fr, x.Index)
		return it.lookup(base.String() + "[" + i.String() + "]")
	case *ssa.Lookup:
		base := it.val(fr, x.X)
		i := it.val(fr, x.Index)
		k := base.String() + "[" + i.String() + "]"
		if x.CommaOk {
			return AV{Kind: KTuple, Tup: []AV{it.lookup(k), it.lookup(k + "#ok")}}
		}
		return it.lookup(k)
	case *ssa.UnOp:
		a := it.val(fr, x.X)
		switch x.Op {
		case token.MUL:
			if a.Kind == KAddr {
				if m, ok := it.mem[a.Key]; ok {
					return m
				}
				if strings.HasPrefix(a.Key, "local#") {
					// a field of a local struct that was stored as a whole
					for pre := a.Key; ; {
						i := strings.LastIndex(pre, ".")
						if i < 0 {
							break
						}
						pre = pre[:i]
						if m, ok := it.mem[pre]; ok {
							if m.Kind == KSym || m.Kind == KNonNil {
								return it.lookup(m.Key + a.Key[len(pre):])
							}
							break
						}
					}
					// a local struct assembled field by field and read as a whole
					if _, isStruct := x.Type().Underlying().(*types.Struct); isStruct {
						var ks []string
						for k := range it.mem {
							if strings.HasPrefix(k, a.Key+".") && !strings.Contains(k[len(a.Key)+1:], ".") {
								ks = append(ks, k)
							}
						}
						if len(ks) > 0 {
							sort.Strings(ks)
							var fs []string
							for _, k := range ks {
								fs = append(fs, k[len(a.Key)+1:]+":"+it.mem[k].String())
							}
							return Sym("struct{" + strings.Join(fs, ",") + "}")
						}
					}
					// never stored: zero value
					return zeroAV(x.Type())
				}
				return it.lookup(a.Key)
			}
			return it.lookup("*" + a.String())
		case token.NOT:
			if a.IsTrue() {
				return CBool(false)
			}
			if a.IsFalse() {
				return CBool(true)
			}
			return it.lookup("!" + a.String())
		case token.SUB:
			if a.Kind == KConst {
				return AV{Kind: KConst, C: constant.UnaryOp(token.SUB, a.C, 0)}
			}
		}
		return it.lookup(x.Op.String() + a.String())
	case *ssa.BinOp:
		return it.binop(x.Op, it.val(fr, x.X), it.val(fr, x.Y), x)
	case *ssa.ChangeType:
		return it.val(fr, x.X)
	case *ssa.Convert:
		a := it.val(fr, x.X)
		if a.Kind == KConst {
			return convertConst(a, x.Type())
		}
		return a
	case *ssa.ChangeInterface:
		return it.val(fr, x.X)
	case *ssa.MakeInterface:
		a := it.val(fr, x.X)
		a.Dyn = Short(types.TypeString(x.X.Type(), nil))
		if a.Kind == KConst || a.Kind == KSym {
			// a non-nil interface holding a value
			k := a.String()
			a = NonNil(k)
			a.Dyn = Short(types.TypeString(x.X.Type(), nil))
		}
		if a.Kind == KNil {
			// typed nil pointer in an interface is a non-nil interface
			a = NonNil("typednil")
			a.Dyn = Short(types.TypeString(x.X.Type(), nil))
		}
		return a
	case *ssa.TypeAssert:
		return it.typeAssert(fr, x)
	case *ssa.Extract:
		t := it.val(fr, x.Tuple)
		if t.Kind == KTuple && x.Index < len(t.Tup) {
			return t.Tup[x.Index]
		}
		return it.lookup(t.String() + fmt.Sprintf("#%d", x.Index))
	case *ssa.MakeClosure:
		f, _ := x.Fn.(*ssa.Function)
		// remember the closure's bindings so that a later call through a
		// function value (a callback parameter of an inlined helper) can run it
		if it.closures == nil {
			it.closures = map[string]closureVal{}
		}
		var bs []AV
		for _, b := range x.Bindings {
			bs = append(bs, it.val(fr, b))
		}
		it.closures["closure:"+FnKey(f)] = closureVal{fn: f, bindings: bs}
		return NonNil("closure:" + FnKey(f))
	case *ssa.MakeSlice:
		if k, ok := ConstInt(x.Len); ok && k == 0 {
			return AV{Kind: KSlice, Key: "[]"}
		}
		it.allocN++
		return NonNil(fmt.Sprintf("make#%d", it.allocN))
	case *ssa.MakeMap, *ssa.MakeChan:
		it.allocN++
		return NonNil(fmt.Sprintf("make#%d", it.allocN))
	case *ssa.Slice:
		a := it.val(fr, x.X)
		if a.Kind == KAddr && strings.HasPrefix(a.Key, "local#") {
			// slice of a local array (variadic arguments): render the elements
			var ks []string
			for k := range it.mem {
				if strings.HasPrefix(k, a.Key+"[") {
					ks = append(ks, k)
				}
			}
			sort.Slice(ks, func(i, j int) bool {
				if len(ks[i]) != len(ks[j]) {
					return len(ks[i]) < len(ks[j])
				}
				return ks[i] < ks[j]
			})
			var es []string
			sl := AV{Kind: KSlice}
			for _, k := range ks {
				es = append(es, it.mem[k].String())
				sl.Tup = append(sl.Tup, it.mem[k])
			}
			sl.Key = "[" + strings.Join(es, ", ") + "]"
			return sl
		}
		if a.Kind == KSym || a.Kind == KNonNil {
			if x.Low == nil && x.High == nil {
				return a
			}
		}
		if a.Kind == KSlice {
			// a known element list resliced at known constant bounds
			lo, hi, ok := 0, len(a.Tup), true
			bound := func(v ssa.Value, def int) int {
				if v == nil {
					return def
				}
				b := it.val(fr, v)
				if b.Kind == KConst && b.C.Kind() == constant.Int {
					if k, exact := constant.Int64Val(b.C); exact {
						return int(k)
					}
				}
				ok = false
				return def
			}
			lo, hi = bound(x.Low, lo), bound(x.High, hi)
			if ok && 0 <= lo && lo <= hi && hi <= len(a.Tup) {
				sl := AV{Kind: KSlice, Tup: append([]AV{}, a.Tup[lo:hi]...)}
				var es []string
				for _, e := range sl.Tup {
					es = append(es, e.String())
				}
				sl.Key = "[" + strings.Join(es, ", ") + "]"
				return sl
			}
		}
		if (a.Kind == KSym || a.Kind == KNonNil) && x.Max == nil {
			// a symbolic string or slice with symbolic bounds: keep the bounds in the name
			b := func(v ssa.Value) string {
				if v == nil {
					return ""
				}
				return it.val(fr, v).String()
			}
			return it.lookup(a.String() + "[" + b(x.Low) + ":" + b(x.High) + "]")
		}
		return it.lookup("slice(" + a.String() + ")")
	case *ssa.Range:
		return Sym("range(" + it.val(fr, x.X).String() + ")")
	case *ssa.Next:
		// one abstract element per iteration: the valuation decides through
		// next(range(X))#i whether iteration i exists
		r := it.val(fr, x.Iter)
		if fr.iters == nil {
			fr.iters = map[*ssa.Next]int{}
		}
		i := fr.iters[x]
		fr.iters[x] = i + 1
		ok := it.lookup(fmt.Sprintf("next(%s)#%d", r.String(), i))
		return AV{Kind: KTuple, Tup: []AV{ok, Sym(fmt.Sprintf("key#%d(%s)", i, r.String())), NonNil(fmt.Sprintf("elem#%d(%s)", i, r.String()))}}
	case *ssa.Select:
		return Sym("select")
	case *ssa.SliceToArrayPointer, *ssa.MultiConvert:
		return Sym("conv")
	}
	it.und("unhandled value %T", v)
	return Sym("?")
}

func zeroAV(t types.Type) AV {
	switch u := t.Underlying().(type) {
	case *types.Basic:
		switch {
		case u.Info()&types.IsBoolean != 0:
			return CBool(false)
		case u.Info()&types.IsInteger != 0:
			return CInt(0)
		case u.Info()&types.IsString != 0:
			return CStr("")
		case u.Info()&types.IsFloat != 0:
			return AV{Kind: KConst, C: constant.MakeFloat64(0)}
		}
	case *types.Pointer, *types.Interface, *types.Slice, *types.Map, *types.Chan, *types.Signature:
		return Nil()
	}
	return Sym("zero")
}

func convertConst(a AV, t types.Type) AV {
	b, ok := t.Underlying().(*types.Basic)
	if !ok {
		return a
	}
	switch {
	case b.Info()&types.IsInteger != 0:
		if a.C.Kind() == constant.Float {
			if i := constant.ToInt(a.C); i.Kind() == constant.Int {
				return AV{Kind: KConst, C: i}
			}
		}
	case b.Info()&types.IsFloat != 0:
		return AV{Kind: KConst, C: constant.ToFloat(a.C)}
	}
	return a
}

func (it *Interp) typeAssert(fr *frame, x *ssa.TypeAssert) AV {
	a := it.val(fr, x.X)
	want := Short(types.TypeString(unaliasDeep(x.AssertedType), nil))
	res := func(ok bool, v AV) AV {
		if x.CommaOk {
			return AV{Kind: KTuple, Tup: []AV{v, CBool(ok)}}
		}
		if !ok {
			it.Effects = append(it.Effects, Effect{Kind: "panic", Name: "type assertion", Pos: x.Pos()})
		}
		return v
	}
	dyn := a.Dyn
	if dyn == "" && a.Kind != KNil {
		// ask the valuation for the dynamic type of this value
		k := "type(" + a.String() + ")"
		if v, ok := it.envGet(k); ok {
			if v.Kind == KNil {
				return res(false, zeroAV(x.AssertedType))
			}
			if v.Kind == KConst && v.C.Kind() == constant.String {
				dyn = constant.StringVal(v.C)
			}
		}
	}
	if a.Kind == KNil {
		return res(false, zeroAV(x.AssertedType))
	}
	if dyn == "" {
		if !x.CommaOk {
			// single-value assertion: assume it holds (a panic otherwise)
			return a
		}
		return AV{Kind: KTuple, Tup: []AV{a, it.lookup("istype(" + a.String() + ", " + want + ")")}}
	}
	if _, isIface := x.AssertedType.Underlying().(*types.Interface); isIface {
		ok := it.dynImplements(dyn, x.AssertedType)
		if ok == 0 {
			return AV{Kind: KTuple, Tup: []AV{a, it.lookup("istype(" + a.String() + ", " + want + ")")}}
		}
		return res(ok > 0, a)
	}
	if dyn == want {
		v := a
		v.Dyn = ""
		if v.Kind == KNonNil && v.Key == "typednil" {
			v = Nil()
		}
		return res(true, v)
	}
	return res(false, zeroAV(x.AssertedType))
}

// dynImplements reports (1 yes, -1 no, 0 unknown) whether the type named dyn
// implements iface.
func (it *Interp) dynImplements(dyn string, iface types.Type) int {
	t := it.P.TypeByString(dyn)
	if t == nil {
		return 0
	}
	it2, _ := iface.Underlying().(*types.Interface)
	if it2 == nil {
		return 0
	}
	if types.Implements(t, it2) {
		return 1
	}
	return -1
}

// binop evaluates a binary operation.
func (it *Interp) binop(op token.Token, a, b AV, x *ssa.BinOp) AV {
	// algebraic identities, so that 1*x, x*1, x+0 and 0+x name the same feature as x
	isK := func(v AV, k int64) bool {
		if v.Kind != KConst || v.C == nil || v.C.Kind() != constant.Int {
			return false
		}
		i, exact := constant.Int64Val(v.C)
		return exact && i == k
	}
	switch {
	case op == token.MUL && isK(a, 1) && b.Kind != KConst:
		return b
	case op == token.MUL && isK(b, 1) && a.Kind != KConst:
		return a
	case op == token.ADD && isK(a, 0) && b.Kind != KConst:
		return b
	case (op == token.ADD || op == token.SUB) && isK(b, 0) && a.Kind != KConst:
		return a
	}
	if a.Kind == KConst && b.Kind == KConst && a.C != nil && b.C != nil {
		switch op {
		case token.EQL, token.NEQ, token.LSS, token.LEQ, token.GTR, token.GEQ:
			if a.C.Kind() == constant.Bool {
				eq := constant.BoolVal(a.C) == constant.BoolVal(b.C)
				return CBool(eq == (op == token.EQL))
			}
			return CBool(constant.Compare(a.C, op, b.C))
		case token.ADD, token.SUB, token.MUL, token.AND, token.OR, token.XOR, token.AND_NOT:
			if a.C.Kind() == constant.Int || a.C.Kind() == constant.Float || a.C.Kind() == constant.String {
				return AV{Kind: KConst, C: constant.BinaryOp(a.C, op, b.C)}
			}
		case token.QUO, token.REM:
			if a.C.Kind() == constant.Int && constant.Sign(b.C) != 0 {
				o := op
				if op == token.QUO {
					o = token.QUO_ASSIGN
				}
				return AV{Kind: KConst, C: constant.BinaryOp(a.C, o, b.C)}
			}
		case token.SHL, token.SHR:
			if s, ok := constant.Uint64Val(b.C); ok {
				return AV{Kind: KConst, C: constant.Shift(a.C, op, uint(s))}
			}
		}
	}
	if op == token.EQL || op == token.NEQ {
		nilness := func(v AV) int { // 1 nil, -1 non-nil, 0 unknown
			switch v.Kind {
			case KNil:
				return 1
			case KNonNil, KAddr:
				return -1
			}
			return 0
		}
		na, nb := nilness(a), nilness(b)
		if (a.Kind == KNil || b.Kind == KNil) && na != 0 && nb != 0 {
			eq := na == 1 && nb == 1
			return CBool(eq == (op == token.EQL))
		}
		if a.Kind == KNil || b.Kind == KNil {
			other := a
			if a.Kind == KNil {
				other = b
			}
			// the dynamic-type feature of an interface value decides its nil-ness
			if _, inDom := it.Dom["type("+other.String()+")"]; inDom || it.Env["type("+other.String()+")"].Kind != KSym || false {
				if tv, ok := it.envGet("type(" + other.String() + ")"); ok {
					isNil := tv.Kind == KNil
					return CBool(isNil == (op == token.EQL))
				}
			}
			v := it.lookup("(" + other.String() + " == nil)")
			if v.Kind == KConst {
				if op == token.NEQ {
					return CBool(!constant.BoolVal(v.C))
				}
				return v
			}
		}
	}
	// the same symbolic object on both sides (pointer identity, or one value compared with itself)
	if (op == token.EQL || op == token.NEQ) && a.Kind == b.Kind && (a.Kind == KNonNil || a.Kind == KAddr) && a.Key == b.Key && a.Key != "" {
		return CBool(op == token.EQL)
	}
	// canonical atoms: (a == b), (a < b)
	as, bs := a.String(), b.String()
	try := func(k string, neg bool) (AV, bool) {
		if v, ok := it.envGet(k); ok && v.Kind == KConst {
			if neg {
				return CBool(!constant.BoolVal(v.C)), true
			}
			return v, true
		}
		return AV{}, false
	}
	switch op {
	case token.EQL, token.NEQ:
		neg := op == token.NEQ
		if v, ok := try("("+as+" == "+bs+")", neg); ok {
			return v
		}
		if v, ok := try("("+bs+" == "+as+")", neg); ok {
			return v
		}
	case token.LSS:
		if v, ok := try("("+as+" < "+bs+")", false); ok {
			return v
		}
	case token.GEQ:
		if v, ok := try("("+as+" < "+bs+")", true); ok {
			return v
		}
	case token.GTR:
		if v, ok := try("("+bs+" < "+as+")", false); ok {
			return v
		}
	case token.LEQ:
		if v, ok := try("("+bs+" < "+as+")", true); ok {
			return v
		}
	}
	return Sym("(" + as + " " + op.String() + " " + bs + ")")
}

// TypeByString resolves a Short type string of a named (or pointer-to-named)
// repository or dependency type.
func (p *Prog) TypeByString(s string) types.Type {
	ptr := strings.HasPrefix(s, "*")
	s = strings.TrimPrefix(s, "*")
	i := strings.LastIndex(s, ".")
	if i < 0 {
		return nil
	}
	pkgPath, name := s[:i], s[i+1:]
	pkg := p.Pkg(pkgPath)
	if pkg == nil {
		return nil
	}
	obj := pkg.Types.Scope().Lookup(name)
	if obj == nil {
		return nil
	}
	if ptr {
		return types.NewPointer(obj.Type())
	}
	return obj.Type()
}

// Domain maps feature keys to their representative values.
type Domain map[string][]AV

// Bools is the two-valued domain.
var Bools = []AV{CBool(false), CBool(true)}

// NilOrNot is the reference domain.
var NilOrNot = []AV{Nil(), {Kind: KNonNil}}

// Ints builds an integer domain.
func Ints(vs ...int64) (as []AV) {
	for _, v := range vs {
		as = append(as, CInt(v))
	}
	return as
}

// Strs builds a string domain.
func Strs(vs ...string) (as []AV) {
	for _, v := range vs {
		as = append(as, CStr(v))
	}
	return as
}

// Enumerate calls f for every valuation of d (keys in sorted order).
func (d Domain) Enumerate(f func(Env)) (n int) {
	var keys []string
	for k := range d {
		keys = append(keys, k)
	}
	sort.Strings(keys)
	env := Env{}
	var rec func(i int)
	rec = func(i int) {
		if i == len(keys) {
			n++
			cp := Env{}
			for k, v := range env {
				cp[k] = v
			}
			f(cp)
			return
		}
		for _, v := range d[keys[i]] {
			env[keys[i]] = v
			rec(i + 1)
		}
	}
	rec(0)
	return n
}

// EnvString renders a valuation compactly.
func (e Env) String() string {
	var keys []string
	for k := range e {
		keys = append(keys, k)
	}
	sort.Strings(keys)
	var ss []string
	for _, k := range keys {
		ss = append(ss, k+"="+e[k].String())
	}
	return strings.Join(ss, " ")
}

// B returns the boolean value of feature k (false if absent).
func (e Env) B(k string) bool { return e[k].IsTrue() }

// I returns the integer value of feature k.
func (e Env) I(k string) int64 {
	v := e[k]
	if v.Kind == KConst && v.C != nil {
		if i, ok := constant.Int64Val(constant.ToInt(v.C)); ok {
			return i
		}
	}
	return 0
}

// S returns the string value of feature k.
func (e Env) S(k string) string {
	v := e[k]
	if v.Kind == KConst && v.C != nil && v.C.Kind() == constant.String {
		return constant.StringVal(v.C)
	}
	return ""
}

// IsNil reports whether feature k is nil in e.
func (e Env) IsNil(k string) bool { return e[k].Kind == KNil }

// Features gives the expected-outcome function read access to the valuation;
// reading an unassigned feature of the domain forks the enumeration on it.
type Features struct {
	env Env
	dom Domain
}

func (f Features) get(k string) AV {
	if v, ok := f.env[k]; ok {
		return v
	}
	if _, ok := f.dom[k]; ok {
		panic(needFeature{k})
	}
	panic("adgverif: expected-outcome function reads feature " + k + " that is not in the domain")
}

// B, I, S, IsNil, Key read features.
func (f Features) B(k string) bool     { return f.get(k).IsTrue() }
func (f Features) I(k string) int64    { return Env{k: f.get(k)}.I(k) }
func (f Features) S(k string) string   { return Env{k: f.get(k)}.S(k) }
func (f Features) IsNil(k string) bool { return f.get(k).Kind == KNil }
func (f Features) Key(k string) string { return f.get(k).Key }

// FreeAtom returns the value under which a branch condition outside the feature
// model (a free atom, e.g. a comparison of two struct values) was explored, and
// whether it was met on this path at all.
func (f Features) FreeAtom(cond string) (val, met bool) {
	v, ok := f.env["free:"+cond]
	return ok && v.IsTrue(), ok
}

// DecideCfg configures a decision-table check.
type DecideCfg struct {
	Dom    Domain
	Inline func(*ssa.Function) bool
	OnCall func(it *Interp, name string, args []AV) (AV, bool)
	StopAt map[string]bool
	// OnUnd, if set, is called for every undecided leaf and the exploration
	// continues; otherwise the first undecided leaf ends the check.
	OnUnd   func(env Env, why string)
	NonNil  map[string]bool
	Args    func(it *Interp) []AV
	MaxRuns int
	// MaxFree bounds the number of branch conditions outside the feature model
	// that are explored as free boolean atoms (0 = default 6, negative = none).
	MaxFree int
	// Expect returns "" if outcome o is right for the valuation, else a
	// description of what was expected.
	Expect func(f Features, o AOutcome) string
}

// DecideResult summarises a decision-table check.
type DecideResult struct {
	Runs     int
	Und      string
	Mismatch string
	Used     map[string]bool
	Rows     []string
	Free     []string // conditions explored as free atoms
	// Inlined lists the callees that were interpreted as part of the runs.
	Inlined map[string]bool
}

// Decide explores the decision tree of fn lazily over the domain and compares
// every leaf with the expected outcome.
func (p *Prog) Decide(fn *ssa.Function, cfg DecideCfg) (res DecideResult) {
	res.Used = map[string]bool{}
	if cfg.MaxRuns == 0 {
		cfg.MaxRuns = 4096
	}
	work := []Env{{}}
	for len(work) > 0 {
		env := work[len(work)-1]
		work = work[:len(work)-1]
		res.Runs++
		if res.Runs > cfg.MaxRuns {
			res.Und = fmt.Sprintf("more than %d abstract runs", cfg.MaxRuns)
			return res
		}
		it := &Interp{P: p, Env: env, Dom: cfg.Dom, Inline: cfg.Inline, OnCall: cfg.OnCall, NonNilCalls: cfg.NonNil, StopAt: cfg.StopAt}
		if res.Inlined == nil {
			res.Inlined = map[string]bool{}
		}
		it.inlined = res.Inlined
		var args []AV
		fork := func(k string) {
			for _, v := range cfg.Dom[k] {
				e2 := Env{}
				for kk, vv := range env {
					e2[kk] = vv
				}
				e2[k] = v
				work = append(work, e2)
			}
		}
		need := ""
		if cfg.Args != nil {
			func() {
				defer func() {
					if r := recover(); r != nil {
						if nf, ok := r.(needFeature); ok {
							need = nf.key
							return
						}
						panic(r)
					}
				}()
				it.Used = map[string]bool{}
				args = cfg.Args(it)
			}()
			if need != "" {
				fork(need)
				continue
			}
		}
		o := it.Run(fn, args)
		if o.Exit == "need" {
			fork(o.Need)
			continue
		}
		if o.Exit == "undecided" && it.UndCond != "" && cfg.MaxFree >= 0 {
			// explore both outcomes of the unmodelled condition
			nfree := 0
			for k := range env {
				if strings.HasPrefix(k, "free:") {
					nfree++
				}
			}
			limit := cfg.MaxFree
			if limit == 0 {
				limit = 6
			}
			if nfree < limit {
				for _, v := range Bools {
					e2 := Env{}
					for kk, vv := range env {
						e2[kk] = vv
					}
					e2["free:"+it.UndCond] = v
					work = append(work, e2)
				}
				res.Free = append(res.Free, it.UndCond)
				continue
			}
		}
		if o.Exit == "undecided" {
			if cfg.OnUnd != nil {
				cfg.OnUnd(env, o.Und)
				continue
			}
			res.Und = o.Und + " [valuation: " + env.String() + "]"
			return res
		}
		for k := range it.Used {
			res.Used[k] = true
		}
		var want string
		func() {
			defer func() {
				if r := recover(); r != nil {
					if nf, ok := r.(needFeature); ok {
						need = nf.key
						return
					}
					panic(r)
				}
			}()
			want = cfg.Expect(Features{env: env, dom: cfg.Dom}, o)
		}()
		if need != "" {
			fork(need)
			continue
		}
		row := fmt.Sprintf("{%s} -> %s [%s]", env.String(), o.Exit, o.RetString())
		if len(res.Rows) < 64 {
			res.Rows = append(res.Rows, row)
		}
		if want != "" && res.Mismatch == "" {
			res.Mismatch = fmt.Sprintf("for {%s} the code yields %s [%s] effects %v; expected %s", env.String(), o.Exit, o.RetString(), effectStrings(o.Effects), want)
		}
	}
	return res
}

func effectStrings(es []Effect) (ss []string) {
	for _, e := range es {
		ss = append(ss, e.String())
	}
	return ss
}

// unaliasDeep removes type aliases, also under one pointer.
func unaliasDeep(t types.Type) types.Type {
	t = types.Unalias(t)
	if p, ok := t.(*types.Pointer); ok {
		return types.NewPointer(types.Unalias(p.Elem()))
	}
	return t
}

// SetMem lets a call hook model a callee's write to abstract memory (the cell
// named by its access path).
func (it *Interp) SetMem(key string, v AV) { it.mem[key] = v }

// MemWithPrefix returns the abstract memory cells whose key starts with prefix
// (for call hooks that model a callee reading a local container, such as
// errors.Join over a slice of collected errors).
func (it *Interp) MemWithPrefix(prefix string) map[string]AV {
	out := map[string]AV{}
	for k, v := range it.mem {
		if strings.HasPrefix(k, prefix) {
			out[k] = v
		}
	}
	return out
}
