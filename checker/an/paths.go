package an

import (
	"go/token"
	"go/types"
	"sort"

	"golang.org/x/tools/go/ssa"
)

// Engine B helpers: event counting along control-flow paths.

// PathEvents finds, over all control-flow paths of fn from entry to an exit,
// one on which more than limit of the given event instructions execute, and
// returns the events on it (nil if none).  cancel, if set, is asked on every
// conditional edge which already-counted events the edge retracts (e.g. the
// error edge of a delegating call means the callee did not perform the
// event).  An event inside a loop counts as unbounded.
func PathEvents(fn *ssa.Function, events map[ssa.Instruction]bool, limit int,
	cancel func(e CondEdge, counted []ssa.Instruction) []ssa.Instruction) (witness []ssa.Instruction) {
	if len(events) == 0 {
		return nil
	}
	// events in loops
	for ev := range events {
		if CanReach(ev, ev) {
			return []ssa.Instruction{ev, ev}
		}
	}
	type state struct {
		b   *ssa.BasicBlock
		key string
	}
	seen := map[state]bool{}
	var dfs func(b *ssa.BasicBlock, counted []ssa.Instruction) []ssa.Instruction
	keyOf := func(c []ssa.Instruction) string {
		var ps []int
		for _, in := range c {
			ps = append(ps, int(in.Pos())*64+idx(in)%64)
		}
		sort.Ints(ps)
		k := ""
		for _, p := range ps {
			k += string(rune(p%50000+32)) + string(rune(p/50000+32))
		}
		return k
	}
	dfs = func(b *ssa.BasicBlock, counted []ssa.Instruction) []ssa.Instruction {
		st := state{b, keyOf(counted)}
		if seen[st] {
			return nil
		}
		seen[st] = true
		for _, in := range b.Instrs {
			if events[in] {
				counted = append(append([]ssa.Instruction{}, counted...), in)
				if len(counted) > limit {
					return counted
				}
			}
		}
		var ifi *ssa.If
		if n := len(b.Instrs); n > 0 {
			ifi, _ = b.Instrs[n-1].(*ssa.If)
		}
		for i, s := range b.Succs {
			c2 := counted
			if ifi != nil && cancel != nil && b.Succs[0] != b.Succs[1] {
				drop := cancel(CondEdge{ifi, i == 0}, counted)
				if len(drop) > 0 {
					c2 = nil
					for _, x := range counted {
						keep := true
						for _, d := range drop {
							if d == x {
								keep = false
							}
						}
						if keep {
							c2 = append(c2, x)
						}
					}
				}
			}
			if w := dfs(s, c2); w != nil {
				return w
			}
		}
		return nil
	}
	return dfs(fn.Blocks[0], nil)
}

// ErrNonNilEdgeOf reports whether edge e is taken exactly when the error
// result of call (its last result) is non-nil.
func ErrNonNilEdgeOf(e CondEdge, call *ssa.Call) bool {
	b, ok := e.If.Cond.(*ssa.BinOp)
	if !ok || (b.Op != token.EQL && b.Op != token.NEQ) {
		return false
	}
	var other ssa.Value
	switch {
	case IsNilConst(b.Y):
		other = b.X
	case IsNilConst(b.X):
		other = b.Y
	default:
		return false
	}
	n := call.Common().Signature().Results().Len()
	if n == 0 {
		return false
	}
	if !isResultOf(other, call, n-1, n) {
		return false
	}
	// NEQ nil: true branch non-nil; EQL nil: false branch non-nil
	return (b.Op == token.NEQ) == e.Branch
}

func isResultOf(v ssa.Value, call *ssa.Call, i, n int) bool {
	switch x := v.(type) {
	case *ssa.Extract:
		return x.Tuple == call && x.Index == i
	case *ssa.Call:
		return x == call && n == 1
	case *ssa.Phi:
		for _, e := range x.Edges {
			if !isResultOf(e, call, i, n) {
				return false
			}
		}
		return len(x.Edges) > 0
	case *ssa.UnOp:
		if x.Op == token.MUL {
			if al, ok := x.X.(*ssa.Alloc); ok {
				// named result / local: the last store before this load in the block
				var last *ssa.Store
				for _, in := range x.Block().Instrs {
					if in == ssa.Instruction(x) {
						break
					}
					if st, ok := in.(*ssa.Store); ok && st.Addr == al {
						last = st
					}
				}
				if last != nil {
					return isResultOf(last.Val, call, i, n)
				}
				// single store overall
				if st := SingleStore(al); st != nil {
					return isResultOf(st.Val, call, i, n)
				}
			}
		}
	}
	return false
}

// Implementations returns the repository methods that an interface-method call
// may dispatch to.
func (p *Prog) Implementations(c ssa.CallInstruction) (fns []*ssa.Function) {
	cc := c.Common()
	if !cc.IsInvoke() {
		return nil
	}
	it, ok := cc.Value.Type().Underlying().(*types.Interface)
	if !ok {
		return nil
	}
	p.buildIndex()
	for _, fn := range p.AllFns {
		if fn.Name() != cc.Method.Name() || fn.Signature.Recv() == nil {
			continue
		}
		if types.Implements(fn.Signature.Recv().Type(), it) {
			fns = append(fns, fn)
		}
	}
	return fns
}
