package an

import (
	"encoding/json"
	"fmt"
	"go/token"
	"os"
	"path/filepath"
	"reflect"
	"sort"
	"strings"
	"time"
)

// Status is the verdict on one obligation.
type Status string

// Verdicts.
const (
	OK        Status = "ok"
	Violation Status = "violation"
	Undecided Status = "undecided"
	Known     Status = "known-finding"
	Info      Status = "info"
)

// Obligation is one rule instance with its verdict.
type Obligation struct {
	Rule   string `json:"rule"`
	Key    string `json:"key"`
	Pos    string `json:"pos"`
	Status Status `json:"status"`
	Detail string `json:"detail,omitempty"`
	Config string `json:"build_config,omitempty"`
}

// KnownFinding is an entry of known_findings.json.
type KnownFinding struct {
	Property string `json:"property"`
	Rule     string `json:"rule"`
	Key      string `json:"key"`
	Status   string `json:"status"` // known | fixed
	Commit   string `json:"commit,omitempty"`
	What     string `json:"what"`
}

// Ctx collects the obligations of one property check over one loaded program.
type borrowKey struct {
	p  *Prog
	fn uintptr
}

// borrowMemo keeps the result of running a neighbour property once per loaded program.
var borrowMemo = map[borrowKey]*Ctx{}

// Depth is 0 for the property being checked and 1 for a property run on behalf of a borrower.
func (c *Ctx) Depth() int { return c.depth }

type Ctx struct {
	depth int
	*Prog
	Property    string
	Tier        string
	Obls        []Obligation
	floors      map[string]int
	Exceptions  []string
	FnsAnalysed map[string]bool
	CallSites   int
	Notes       []string
}

// NewCtx returns a new context.
func NewCtx(p *Prog, prop, tier string) *Ctx {
	return &Ctx{Prog: p, Property: prop, Tier: tier, floors: map[string]int{}, FnsAnalysed: map[string]bool{}}
}

func (c *Ctx) add(rule, key string, pos token.Pos, st Status, format string, args ...any) {
	c.Obls = append(c.Obls, Obligation{
		Rule: rule, Key: key, Pos: c.Pos(pos), Status: st, Detail: fmt.Sprintf(format, args...),
		Config: c.Config.String(),
	})
}

// Ok records a discharged obligation.
func (c *Ctx) Ok(rule, key string, pos token.Pos, format string, args ...any) {
	c.add(rule, key, pos, OK, format, args...)
}

// Bad records a violated obligation.
func (c *Ctx) Bad(rule, key string, pos token.Pos, format string, args ...any) {
	c.add(rule, key, pos, Violation, format, args...)
}

// Und records an obligation that the engine could not decide.
func (c *Ctx) Und(rule, key string, pos token.Pos, format string, args ...any) {
	c.add(rule, key, pos, Undecided, format, args...)
}

// Inf records an informational instance (generalised sweep).
func (c *Ctx) Inf(rule, key string, pos token.Pos, format string, args ...any) {
	c.add(rule, key, pos, Info, format, args...)
}

// Check records ok if cond, else a violation.
func (c *Ctx) Check(cond bool, rule, key string, pos token.Pos, okDetail, badDetail string) bool {
	if cond {
		c.Ok(rule, key, pos, "%s", okDetail)
	} else {
		c.Bad(rule, key, pos, "%s", badDetail)
	}
	return cond
}

// Floor declares that rule must have produced at least n ok/violation/known
// obligations; fewer means an anchor disappeared and the rule would pass
// vacuously.
func (c *Ctx) Floor(rule string, n int) { c.floors[rule] = n }

// Except records a named exception with its reason (echoed in the evidence).
func (c *Ctx) Except(rule, symbol, reason string) {
	c.Exceptions = append(c.Exceptions, fmt.Sprintf("%s: %s — %s", rule, symbol, reason))
}

// Analysed notes that fn was analysed.
func (c *Ctx) Analysed(key string) { c.FnsAnalysed[key] = true }

// Finish applies floors.
func (c *Ctx) Finish() {
	count := map[string]int{}
	for _, o := range c.Obls {
		if o.Status != Info {
			count[o.Rule]++
		}
	}
	var rules []string
	for r := range c.floors {
		rules = append(rules, r)
	}
	sort.Strings(rules)
	for _, r := range rules {
		if count[r] < c.floors[r] {
			c.add(r, "floor", token.NoPos, Undecided,
				"rule matched %d instances, floor is %d: an anchor no longer resolves", count[r], c.floors[r])
		}
	}
}

// Evidence is the JSON written to /verif/evidence/<id>.json.
type Evidence struct {
	PropertyID  string         `json:"property_id"`
	Tier        string         `json:"tier"`
	Seed        int            `json:"seed"`
	Level       string         `json:"level"`
	Coverage    map[string]any `json:"coverage"`
	Assumptions []string       `json:"assumptions"`
	WallS       float64        `json:"wall_s"`
	Violations  int            `json:"violations"`
}

// Outcome is the merged result of all contexts of one check run.
type Outcome struct {
	Property   string
	Tier       string
	Obls       []Obligation
	Exceptions []string
	Fns        map[string]bool
	Configs    []string
	Packages   int
	Notes      []string
	Fatal      []string
	SelfTest   map[string]any
}

// Merge adds the results of c.
func (o *Outcome) Merge(c *Ctx) {
	o.Obls = append(o.Obls, c.Obls...)
	for _, e := range c.Exceptions {
		found := false
		for _, x := range o.Exceptions {
			if x == e {
				found = true
			}
		}
		if !found {
			o.Exceptions = append(o.Exceptions, e)
		}
	}
	if o.Fns == nil {
		o.Fns = map[string]bool{}
	}
	for k := range c.FnsAnalysed {
		o.Fns[k] = true
	}
	o.Configs = append(o.Configs, c.Config.String())
	o.Packages = len(c.Pkgs)
	o.Notes = append(o.Notes, c.Notes...)
}

// LoadKnown reads known_findings.json.
func LoadKnown(path string) (kf []KnownFinding, err error) {
	b, err := os.ReadFile(path)
	if err != nil {
		if os.IsNotExist(err) {
			return nil, nil
		}
		return nil, err
	}
	err = json.Unmarshal(b, &kf)
	return kf, err
}

// Report prints the verdict lines, writes the evidence and violation files and
// returns the exit code.
func (o *Outcome) Report(verifDir string, known []KnownFinding, expl Explanation, seed int, t0 time.Time) (code int) {
	evDir := filepath.Join(verifDir, "evidence")
	vDir := filepath.Join(evDir, "violations")
	_ = os.MkdirAll(vDir, 0o755)
	// remove stale violation files of this property
	if old, _ := filepath.Glob(filepath.Join(vDir, o.Property+"-*.json")); old != nil {
		for _, f := range old {
			_ = os.Remove(f)
		}
	}

	isKnown := func(ob Obligation) *KnownFinding {
		for i := range known {
			k := &known[i]
			if k.Status == "known" && k.Property == o.Property && k.Rule == ob.Rule && k.Key == ob.Key {
				return k
			}
		}
		return nil
	}

	sort.SliceStable(o.Obls, func(i, j int) bool {
		a, b := o.Obls[i], o.Obls[j]
		if a.Rule != b.Rule {
			return a.Rule < b.Rule
		}
		if a.Key != b.Key {
			return a.Key < b.Key
		}
		return a.Config < b.Config
	})

	nOK, nBad, nKnown, nInfo := 0, 0, 0, 0
	seenKnown := map[string]bool{}
	seenBad := map[string]bool{}
	var knownLines []string
	vk := 0
	for i := range o.Obls {
		ob := &o.Obls[i]
		switch ob.Status {
		case OK:
			nOK++
		case Info:
			nInfo++
		case Violation, Undecided:
			if k := isKnown(*ob); k != nil && ob.Status == Violation {
				ob.Status = Known
				nKnown++
				id := ob.Rule + "|" + ob.Key
				if !seenKnown[id] {
					seenKnown[id] = true
					line := fmt.Sprintf("KNOWN-FINDING: property=%s %s %s: %s", o.Property, ob.Rule, ob.Key, k.What)
					fmt.Println(line)
					knownLines = append(knownLines, line)
				}
				continue
			}
			nBad++
			id := ob.Rule + "|" + ob.Key + "|" + string(ob.Status)
			if seenBad[id] {
				continue
			}
			seenBad[id] = true
			vk++
			path := filepath.Join(vDir, fmt.Sprintf("%s-%d.json", o.Property, vk))
			b, _ := json.MarshalIndent(map[string]any{
				"property": o.Property, "rule": ob.Rule, "key": ob.Key, "pos": ob.Pos,
				"status": ob.Status, "detail": ob.Detail, "build_config": ob.Config,
			}, "", " ")
			_ = os.WriteFile(path, b, 0o644)
			fmt.Printf("VIOLATION property=%s replay=%s\n", o.Property, path)
			fmt.Printf("  %s  %s  %s  [%s]  %s\n", ob.Pos, ob.Rule, ob.Key, ob.Status, ob.Detail)
		}
	}
	for _, f := range o.Fatal {
		nBad++
		vk++
		path := filepath.Join(vDir, fmt.Sprintf("%s-%d.json", o.Property, vk))
		b, _ := json.MarshalIndent(map[string]any{"property": o.Property, "rule": "fatal", "detail": f}, "", " ")
		_ = os.WriteFile(path, b, 0o644)
		fmt.Printf("VIOLATION property=%s replay=%s\n", o.Property, path)
		fmt.Printf("  fatal: %s\n", f)
	}

	// samples: every non-ok obligation plus a spread of ok ones per rule
	var samples []any
	perRule := map[string]int{}
	rulesSeen := map[string]bool{}
	for _, ob := range o.Obls {
		rulesSeen[ob.Rule] = true
		if ob.Status == OK || ob.Status == Info {
			if perRule[ob.Rule+string(ob.Status)] >= 6 {
				continue
			}
			perRule[ob.Rule+string(ob.Status)]++
		}
		samples = append(samples, ob)
	}
	var rules []string
	for r := range rulesSeen {
		rules = append(rules, r)
	}
	sort.Strings(rules)
	var fns []string
	for f := range o.Fns {
		fns = append(fns, f)
	}
	sort.Strings(fns)

	obligations := nOK + nBad + nKnown
	distinct := map[string]bool{}
	for _, ob := range o.Obls {
		if ob.Status != Info {
			distinct[ob.Rule+"|"+ob.Key] = true
		}
	}

	ev := Evidence{
		PropertyID: o.Property,
		Tier:       o.Tier,
		Seed:       seed,
		Level:      "other",
		Coverage: map[string]any{
			"explanation":         expl.Text,
			"not_covered":         expl.NotCovered,
			"rule":                "one obligation per (rule, construct) instance enumerated from /repo's SSA on this run; distinct = distinct (rule, construct key) pairs",
			"evaluations":         len(o.Obls),
			"distinct_nontrivial": len(distinct),
			"obligations":         obligations,
			"discharged":          nOK,
			"known_findings":      knownLines,
			"informational":       nInfo,
			"rules_applied":       rules,
			"rule_descriptions":   expl.Rules,
			"samples":             samples,
			"functions_analysed":  fns,
			"packages":            o.Packages,
			"build_configs":       o.Configs,
			"exceptions":          o.Exceptions,
			"exhaustive":          nBad == 0,
			"checker_cmd":         strings.Join(os.Args, " "),
			"trusted_base":        []string{"go/types and go/ssa of golang.org/x/tools v0.29.0", "semantics of library primitives listed in DESIGN.md section 4"},
			"notes":               o.Notes,
			"selftest":            o.SelfTest,
		},
		Assumptions: append([]string{"go/types and go/ssa (x/tools v0.29.0) represent the program faithfully; no unsafe or reflective mutation of tracked values"}, expl.Assumptions...),
		WallS:       time.Since(t0).Seconds(),
		Violations:  nBad,
	}
	b, _ := json.MarshalIndent(ev, "", " ")
	_ = os.WriteFile(filepath.Join(evDir, o.Property+".json"), b, 0o644)

	fmt.Printf("%s tier=%s obligations=%d discharged=%d known=%d violations=%d info=%d configs=%v wall=%.1fs\n",
		o.Property, o.Tier, obligations, nOK, nKnown, nBad, nInfo, o.Configs, time.Since(t0).Seconds())
	if nBad > 0 {
		return 1
	}
	return 0
}

// Explanation is the per-property text that goes into the evidence.
type Explanation struct {
	Text        string
	NotCovered  string
	Rules       map[string]string
	Assumptions []string
}

// Borrow runs another property's rules on the same program and keeps, under
// rule id `to`, the obligations that match: a mechanism decided for one
// property is reported by every property for which it is a necessary condition.
// Floors and exceptions declared by the borrowed rules are discarded.
func (c *Ctx) Borrow(to string, from func(*Ctx), match func(o Obligation) bool) (kept int) {
	// A property that is itself being run for a borrower does not borrow in turn: the borrower selects
	// obligations by the neighbour's own rule ids, and mutual borrowing would never end.
	if c.depth > 0 {
		return 0
	}
	key := reflect.ValueOf(from).Pointer()
	sub := borrowMemo[borrowKey{c.Prog, key}]
	if sub == nil {
		sub = NewCtx(c.Prog, c.Property, c.Tier)
		sub.depth = c.depth + 1
		func() {
			defer func() {
				if r := recover(); r != nil {
					sub.Und("engine", "panic in borrowed rules", 0, "%v", r)
				}
			}()
			from(sub)
		}()
		borrowMemo[borrowKey{c.Prog, key}] = sub
	}
	for _, o := range sub.Obls {
		if o.Status == Info || !match(o) {
			continue
		}
		o.Detail = "[" + o.Rule + "] " + o.Detail
		o.Rule = to
		c.Obls = append(c.Obls, o)
		kept++
	}
	for k := range sub.FnsAnalysed {
		c.FnsAnalysed[k] = true
	}
	return kept
}
