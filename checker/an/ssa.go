package an

import (
	"go/token"
	"go/types"
	"strings"

	"golang.org/x/tools/go/ssa"
)

// Instrs calls f for every instruction of fn.
func Instrs(fn *ssa.Function, f func(ssa.Instruction)) {
	for _, b := range fn.Blocks {
		for _, in := range b.Instrs {
			f(in)
		}
	}
}

// Calls returns all call-like instructions (call, go, defer) of fn.
func Calls(fn *ssa.Function) (cs []ssa.CallInstruction) {
	Instrs(fn, func(in ssa.Instruction) {
		if c, ok := in.(ssa.CallInstruction); ok {
			cs = append(cs, c)
		}
	})
	return cs
}

// StaticCallee returns the statically known callee of c, looking through
// bound-method and plain closures.
func StaticCallee(c ssa.CallInstruction) *ssa.Function {
	cc := c.Common()
	if f := cc.StaticCallee(); f != nil {
		return f
	}
	if cc.IsInvoke() {
		return nil
	}
	switch v := cc.Value.(type) {
	case *ssa.MakeClosure:
		if f, ok := v.Fn.(*ssa.Function); ok {
			return f
		}
	}
	return nil
}

// FullName is the canonical name of a function: for declared functions and
// methods types.Func.FullName of the (generic origin's) object, for closures
// Parent$N, for synthetic wrappers the name of the wrapped function.
func FullName(fn *ssa.Function) string {
	if fn == nil {
		return ""
	}
	if o := fn.Origin(); o != nil {
		fn = o
	}
	if obj, ok := fn.Object().(*types.Func); ok && obj != nil {
		return obj.FullName()
	}
	if fn.Parent() != nil {
		return FullName(fn.Parent()) + "$" + strings.TrimPrefix(fn.Name(), fn.Parent().Name()+"$")
	}
	// bound method wrapper / thunk
	if fn.Synthetic != "" {
		s := fn.String()
		return s
	}
	return fn.String()
}

// CalleeName returns the canonical name of what c calls: FullName of the static
// callee, "(pkg.Iface).Method" for interface invocations, "builtin.X" for
// builtins, and "dynamic" otherwise.
func CalleeName(c ssa.CallInstruction) string {
	cc := c.Common()
	if cc.IsInvoke() {
		return cc.Method.FullName()
	}
	if f := StaticCallee(c); f != nil {
		return FullName(f)
	}
	if b, ok := cc.Value.(*ssa.Builtin); ok {
		return "builtin." + b.Name()
	}
	// bound method closure: MakeClosure of a $bound wrapper handled by
	// StaticCallee; a call through a value is dynamic.
	return "dynamic"
}

// BoundMethod returns, for a value that is a bound-method closure
// (x.M as a value), the method's full name and the receiver value.
func BoundMethod(v ssa.Value) (name string, recv ssa.Value, ok bool) {
	mc, isMC := v.(*ssa.MakeClosure)
	if !isMC {
		return "", nil, false
	}
	f, _ := mc.Fn.(*ssa.Function)
	if f == nil || !strings.HasSuffix(f.Name(), "$bound") || len(mc.Bindings) != 1 {
		return "", nil, false
	}
	// the wrapper's single call is the method
	for _, c := range Calls(f) {
		return CalleeName(c), mc.Bindings[0], true
	}
	return "", nil, false
}

// Short strips the repository's internal prefix from a canonical name.
func Short(name string) string {
	return strings.ReplaceAll(name, Int, "")
}

// IsCall reports whether c calls one of names (canonical, Short form accepted).
func IsCall(c ssa.CallInstruction, names ...string) bool {
	n := Short(CalleeName(c))
	for _, x := range names {
		if n == x {
			return true
		}
	}
	return false
}

// CallsTo returns the call instructions of fn whose callee is one of names.
func CallsTo(fn *ssa.Function, names ...string) (cs []ssa.CallInstruction) {
	for _, c := range Calls(fn) {
		if IsCall(c, names...) {
			cs = append(cs, c)
		}
	}
	return cs
}

// index of instruction in its block.
func idx(in ssa.Instruction) int {
	for i, x := range in.Block().Instrs {
		if x == in {
			return i
		}
	}
	return -1
}

// Dominates reports whether instruction a dominates instruction b (a executes
// on every path from entry to b).
func Dominates(a, b ssa.Instruction) bool {
	if a.Block() == b.Block() {
		return idx(a) <= idx(b)
	}
	return a.Block().Dominates(b.Block())
}

// EdgeDominates reports whether every path from the entry to block x passes
// through the edge from→to.
func EdgeDominates(from, to, x *ssa.BasicBlock) bool {
	if !to.Dominates(x) {
		return false
	}
	// the edge dominates x iff to dominates x and every other predecessor of
	// `to` is itself dominated by `to` (a back edge).
	n := 0
	for _, p := range to.Preds {
		if p == from {
			n++
			continue
		}
		if !to.Dominates(p) {
			return false
		}
	}
	return n >= 1
}

// CondEdge describes a conditional edge: the If instruction and the branch
// taken (true = Succs[0]).
type CondEdge struct {
	If     *ssa.If
	Branch bool
}

// To returns the destination block of the edge.
func (e CondEdge) To() *ssa.BasicBlock {
	if e.Branch {
		return e.If.Block().Succs[0]
	}
	return e.If.Block().Succs[1]
}

// DominatingConds returns the conditional edges that dominate block x, from
// the innermost outwards.
func DominatingConds(x *ssa.BasicBlock) (es []CondEdge) {
	fn := x.Parent()
	for _, b := range fn.Blocks {
		if len(b.Instrs) == 0 {
			continue
		}
		ifi, ok := b.Instrs[len(b.Instrs)-1].(*ssa.If)
		if !ok {
			continue
		}
		if b.Succs[0] != b.Succs[1] {
			if EdgeDominates(b, b.Succs[0], x) {
				es = append(es, CondEdge{ifi, true})
			}
			if EdgeDominates(b, b.Succs[1], x) {
				es = append(es, CondEdge{ifi, false})
			}
		}
	}
	return es
}

// ReachesExitAvoiding reports whether some path from just after instruction
// `from` (or from the start of block `from.Block()` when from is nil and start
// is given) reaches a function exit (Return; Panic is not an exit unless
// panicIsExit) without executing an instruction for which barrier returns
// true.  It returns a witness: the last instruction of the path.
func ReachesExitAvoiding(start *ssa.BasicBlock, startIdx int, barrier func(ssa.Instruction) bool, panicIsExit bool) (ssa.Instruction, bool) {
	type st struct {
		b *ssa.BasicBlock
		i int
	}
	seen := map[*ssa.BasicBlock]bool{}
	work := []st{{start, startIdx}}
	for len(work) > 0 {
		s := work[len(work)-1]
		work = work[:len(work)-1]
		blocked := false
		for i := s.i; i < len(s.b.Instrs); i++ {
			in := s.b.Instrs[i]
			if barrier(in) {
				blocked = true
				break
			}
			switch in.(type) {
			case *ssa.Return:
				return in, true
			case *ssa.Panic:
				if panicIsExit {
					return in, true
				}
				blocked = true
			}
			if blocked {
				break
			}
		}
		if blocked {
			continue
		}
		for _, succ := range s.b.Succs {
			if !seen[succ] {
				seen[succ] = true
				work = append(work, st{succ, 0})
			}
		}
	}
	return nil, false
}

// After returns the (block, index) just after instruction in.
func After(in ssa.Instruction) (*ssa.BasicBlock, int) { return in.Block(), idx(in) + 1 }

// CanReach reports whether instruction b can execute after instruction a on
// some path (a != b; same-block order respected; loops considered).
func CanReach(a, b ssa.Instruction) bool {
	blk, i := After(a)
	seen := map[*ssa.BasicBlock]bool{}
	type st struct {
		b *ssa.BasicBlock
		i int
	}
	work := []st{{blk, i}}
	for len(work) > 0 {
		s := work[len(work)-1]
		work = work[:len(work)-1]
		for j := s.i; j < len(s.b.Instrs); j++ {
			if s.b.Instrs[j] == b {
				return true
			}
		}
		for _, succ := range s.b.Succs {
			if !seen[succ] {
				seen[succ] = true
				work = append(work, st{succ, 0})
			}
		}
	}
	return false
}

// Deref strips one pointer level.
func Deref(t types.Type) types.Type {
	if p, ok := t.Underlying().(*types.Pointer); ok {
		return p.Elem()
	}
	return t
}

// NamedOf returns the named type of t (through one pointer), or nil.
func NamedOf(t types.Type) *types.Named {
	t = Deref(t)
	if a, ok := t.(*types.Alias); ok {
		t = types.Unalias(a)
	}
	n, _ := t.(*types.Named)
	return n
}

// TypeName returns "pkgpath.Name" of the named type behind t (through a
// pointer) with the internal prefix stripped, or "".
func TypeName(t types.Type) string {
	n := NamedOf(t)
	if n == nil {
		return ""
	}
	if n.Obj().Pkg() == nil {
		return n.Obj().Name()
	}
	return Short(n.Obj().Pkg().Path()) + "." + n.Obj().Name()
}

// FieldOf returns the struct type name and field name addressed by a FieldAddr
// or Field instruction.
func FieldOf(v ssa.Value) (typ, field string, base ssa.Value, ok bool) {
	switch x := v.(type) {
	case *ssa.FieldAddr:
		st, _ := Deref(x.X.Type()).Underlying().(*types.Struct)
		if st == nil {
			return "", "", nil, false
		}
		return TypeName(x.X.Type()), st.Field(x.Field).Name(), x.X, true
	case *ssa.Field:
		st, _ := x.X.Type().Underlying().(*types.Struct)
		if st == nil {
			return "", "", nil, false
		}
		return TypeName(x.X.Type()), st.Field(x.Field).Name(), x.X, true
	}
	return "", "", nil, false
}

// Unwrap looks through value-preserving wrappers: ChangeType, Convert between
// same-kind types, MakeInterface, ChangeInterface, and load-of-alloc with a
// single store (spilled locals).
func Unwrap(v ssa.Value) ssa.Value {
	for {
		switch x := v.(type) {
		case *ssa.ChangeType:
			v = x.X
		case *ssa.MakeInterface:
			v = x.X
		case *ssa.ChangeInterface:
			v = x.X
		case *ssa.Convert:
			v = x.X
		case *ssa.UnOp:
			if x.Op == token.MUL {
				if a, ok := x.X.(*ssa.Alloc); ok {
					if s := SingleStore(a); s != nil {
						v = s.Val
						continue
					}
				}
			}
			return v
		default:
			return v
		}
	}
}

// SingleStore returns the only Store to alloc a if there is exactly one and a
// is not otherwise escaping through calls.
func SingleStore(a *ssa.Alloc) *ssa.Store {
	var st *ssa.Store
	n := 0
	for _, r := range *a.Referrers() {
		if s, ok := r.(*ssa.Store); ok && s.Addr == a {
			st = s
			n++
		}
	}
	if n == 1 {
		return st
	}
	return nil
}

// Stores returns every Store whose address is v (directly).
func Stores(v ssa.Value) (ss []*ssa.Store) {
	if v.Referrers() == nil {
		return nil
	}
	for _, r := range *v.Referrers() {
		if s, ok := r.(*ssa.Store); ok && s.Addr == v {
			ss = append(ss, s)
		}
	}
	return ss
}

// IsNilConst reports whether v is the nil constant.
func IsNilConst(v ssa.Value) bool {
	c, ok := v.(*ssa.Const)
	return ok && c.Value == nil && !isBasic(c.Type())
}

func isBasic(t types.Type) bool {
	_, ok := t.Underlying().(*types.Basic)
	return ok
}

// ConstInt returns the integer value of a constant.
func ConstInt(v ssa.Value) (int64, bool) {
	c, ok := v.(*ssa.Const)
	if !ok || c.Value == nil {
		return 0, false
	}
	if b, ok := c.Type().Underlying().(*types.Basic); ok && b.Info()&types.IsInteger != 0 {
		return c.Int64(), true
	}
	return 0, false
}

// CanReachAvoiding reports whether instruction b can execute after instruction
// a on some path that does not execute instruction avoid in between.
func CanReachAvoiding(a, b, avoid ssa.Instruction) bool {
	blk, i := After(a)
	seen := map[*ssa.BasicBlock]bool{}
	type st struct {
		b *ssa.BasicBlock
		i int
	}
	work := []st{{blk, i}}
	for len(work) > 0 {
		s := work[len(work)-1]
		work = work[:len(work)-1]
		blocked := false
		for j := s.i; j < len(s.b.Instrs); j++ {
			if s.b.Instrs[j] == avoid {
				blocked = true
				break
			}
			if s.b.Instrs[j] == b {
				return true
			}
		}
		if blocked {
			continue
		}
		for _, succ := range s.b.Succs {
			if !seen[succ] {
				seen[succ] = true
				work = append(work, st{succ, 0})
			}
		}
	}
	return false
}
