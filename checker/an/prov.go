package an

import (
	"go/token"
	"go/types"

	"golang.org/x/tools/go/ssa"
)

// Walker is the backward value-provenance engine (engine C).  Starting from a
// value it walks def-use edges backwards through φ-nodes, conversions,
// arithmetic, loads (field-sensitive: a load of T.f is joined with every store
// to T.f in the repository), calls into repository functions (to their return
// operands), parameters (to the arguments of every static call site) and free
// variables (to the bindings of every closure creation).  Everything it
// cannot look through is reported to Leaf.
type Walker struct {
	P *Prog

	// Visit, if set, is called first for every value reached.  Returning
	// true stops the walk at this value (the rule has classified it).
	Visit func(v ssa.Value) (stop bool)

	// Leaf is called for values the walker cannot look through.
	Leaf func(v ssa.Value, why string)

	// ThroughCalls, if set, is asked for calls to functions outside the
	// repository (or without body): it returns the operands the result
	// depends on (value-preserving library calls), or ok=false for a leaf.
	ThroughCalls func(c *ssa.Call) (deps []ssa.Value, ok bool)

	// Opaque, if set, makes calls to the given repository functions be treated
	// like external ones (handled by ThroughCalls), e.g. deep-copy helpers whose
	// result depends on their argument through stores the walk cannot follow.
	Opaque func(callee *ssa.Function) bool

	// NoFieldJoin disables the program-wide join for field loads (the load
	// becomes a leaf).
	NoFieldJoin bool

	// IndexDeps makes Slice/Index/Lookup depend on their index operands too.
	IndexDeps bool

	MaxDepth int
	// Exceeded is set when the depth bound was hit.
	Exceeded bool

	seen map[ssa.Value]bool
}

// Walk starts (or continues) the walk at v.
func (w *Walker) Walk(v ssa.Value) {
	if w.seen == nil {
		w.seen = map[ssa.Value]bool{}
	}
	if w.MaxDepth == 0 {
		w.MaxDepth = 60
	}
	w.walk(v, 0)
}

func (w *Walker) leaf(v ssa.Value, why string) {
	if w.Leaf != nil {
		w.Leaf(v, why)
	}
}

func (w *Walker) walk(v ssa.Value, d int) {
	if v == nil {
		return
	}
	if w.seen[v] {
		return
	}
	w.seen[v] = true
	if d > w.MaxDepth {
		w.Exceeded = true
		w.leaf(v, "depth bound")
		return
	}
	if w.Visit != nil && w.Visit(v) {
		return
	}
	switch x := v.(type) {
	case *ssa.Const, *ssa.Global, *ssa.Function, *ssa.Builtin:
		w.leaf(v, "constant/global")
	case *ssa.Phi:
		for _, e := range x.Edges {
			w.walk(e, d+1)
		}
	case *ssa.ChangeType:
		w.walk(x.X, d+1)
	case *ssa.Convert:
		w.walk(x.X, d+1)
	case *ssa.MultiConvert:
		w.walk(x.X, d+1)
	case *ssa.ChangeInterface:
		w.walk(x.X, d+1)
	case *ssa.MakeInterface:
		w.walk(x.X, d+1)
	case *ssa.SliceToArrayPointer:
		w.walk(x.X, d+1)
	case *ssa.TypeAssert:
		w.walk(x.X, d+1)
	case *ssa.BinOp:
		w.walk(x.X, d+1)
		w.walk(x.Y, d+1)
	case *ssa.UnOp:
		if x.Op == token.MUL {
			w.load(x, x.X, d)
			return
		}
		w.walk(x.X, d+1)
	case *ssa.Slice:
		w.walk(x.X, d+1)
		if w.IndexDeps {
			w.walk(x.Low, d+1)
			w.walk(x.High, d+1)
		}
	case *ssa.Index:
		w.walk(x.X, d+1)
		if w.IndexDeps {
			w.walk(x.Index, d+1)
		}
	case *ssa.Lookup:
		w.walk(x.X, d+1)
		if w.IndexDeps {
			w.walk(x.Index, d+1)
		}
	case *ssa.Field:
		// value of a field of a struct value: depends on the struct value
		w.walk(x.X, d+1)
	case *ssa.Extract:
		w.result(x.Tuple, x.Index, d)
	case *ssa.Call:
		w.result(x, 0, d)
	case *ssa.Parameter:
		w.param(x, d)
	case *ssa.FreeVar:
		w.freeVar(x, d)
	case *ssa.Alloc:
		// a composite built in place: it depends on everything stored into it
		n := 0
		var into func(a ssa.Value, depth int)
		into = func(a ssa.Value, depth int) {
			if a.Referrers() == nil || depth > 3 {
				return
			}
			for _, r := range *a.Referrers() {
				switch u := r.(type) {
				case *ssa.Store:
					if u.Addr == a {
						n++
						w.walk(u.Val, d+1)
					}
				case *ssa.FieldAddr:
					if u.X == a {
						into(u, depth+1)
					}
				case *ssa.IndexAddr:
					if u.X == a {
						into(u, depth+1)
					}
				}
			}
		}
		into(x, 0)
		if n == 0 {
			w.leaf(v, "address/allocation")
		}
	case *ssa.FieldAddr, *ssa.IndexAddr, *ssa.MakeClosure, *ssa.MakeSlice, *ssa.MakeMap, *ssa.MakeChan:
		w.leaf(v, "address/allocation")
	case *ssa.Next, *ssa.Range, *ssa.Select:
		w.leaf(v, "iteration/select")
	default:
		w.leaf(v, "unhandled value kind")
	}
}

// result walks result #i of the call that produces v.
func (w *Walker) result(v ssa.Value, i int, d int) {
	switch c := v.(type) {
	case *ssa.Call:
		callee := StaticCallee(c)
		if callee != nil && callee.Blocks != nil && w.P.InRepo(callee) && !(w.Opaque != nil && w.Opaque(callee)) {
			n := 0
			for _, r := range Returns(callee) {
				if i < len(r.Results) {
					n++
					w.walk(r.Results[i], d+1)
				}
			}
			if n == 0 {
				w.leaf(v, "callee never returns")
			}
			return
		}
		if w.ThroughCalls != nil {
			if deps, ok := w.ThroughCalls(c); ok {
				for _, dep := range deps {
					w.walk(dep, d+1)
				}
				return
			}
		}
		w.leaf(v, "call result")
	case *ssa.TypeAssert: // comma-ok
		if i == 0 {
			w.walk(c.X, d+1)
		} else {
			w.leaf(v, "type-assert ok")
		}
	case *ssa.Lookup:
		if i == 0 {
			w.walk(c.X, d+1)
			if w.IndexDeps {
				w.walk(c.Index, d+1)
			}
		} else {
			w.leaf(v, "lookup ok")
		}
	case *ssa.UnOp: // <-ch, ok
		w.walk(c.X, d+1)
	case *ssa.Next:
		w.walk(c.Iter, d+1)
	case *ssa.Select:
		w.leaf(v, "select")
	default:
		w.leaf(v, "tuple")
	}
}

func (w *Walker) param(pa *ssa.Parameter, d int) {
	fn := pa.Parent()
	sites, escapes := w.P.ArgSites(fn, ParamIndex(pa))
	for _, s := range sites {
		w.walk(s.Val, d+1)
	}
	if len(sites) == 0 {
		w.leaf(pa, "parameter without visible callers")
	} else if escapes {
		w.leaf(pa, "parameter of a function that is also used as a value")
	}
}

func (w *Walker) freeVar(fv *ssa.FreeVar, d int) {
	fn := fv.Parent()
	i := FreeVarIndex(fv)
	n := 0
	for _, s := range w.P.Callers(fn) {
		if s.Closure != nil && i < len(s.Closure.Bindings) {
			n++
			w.walk(s.Closure.Bindings[i], d+1)
		}
	}
	if n == 0 {
		w.leaf(fv, "free variable without closure site")
	}
}

// load walks the value read through address addr by load instruction ld.
func (w *Walker) load(ld *ssa.UnOp, addr ssa.Value, d int) {
	switch a := addr.(type) {
	case *ssa.Alloc:
		n := 0
		for _, st := range w.StoresToCell(a) {
			n++
			w.walk(st.Val, d+1)
		}
		if n == 0 {
			w.leaf(ld, "load of never-stored local (zero value)")
		}
	case *ssa.FreeVar:
		// captured variable cell: stores in every creating parent and in
		// this closure
		n := 0
		for _, st := range Stores(a) {
			n++
			w.walk(st.Val, d+1)
		}
		fn := a.Parent()
		i := FreeVarIndex(a)
		for _, s := range w.P.Callers(fn) {
			if s.Closure == nil || i >= len(s.Closure.Bindings) {
				continue
			}
			switch b := s.Closure.Bindings[i].(type) {
			case *ssa.Alloc:
				for _, st := range w.StoresToCell(b) {
					n++
					w.walk(st.Val, d+1)
				}
			case *ssa.FreeVar:
				n++
				w.load(ld, b, d+1)
			default:
				n++
				w.walk(b, d+1)
			}
		}
		if n == 0 {
			w.leaf(ld, "captured variable without stores")
		}
	case *ssa.FieldAddr:
		if w.NoFieldJoin {
			w.leaf(ld, "field load")
			return
		}
		typ, field, _, ok := FieldOf(a)
		if !ok {
			w.leaf(ld, "field load (unknown struct)")
			return
		}
		vals := w.P.FieldStores(typ, field)
		if len(vals) == 0 {
			w.leaf(ld, "field never stored: "+typ+"."+field)
			return
		}
		for _, fs := range vals {
			w.walk(fs.Val, d+1)
		}
	case *ssa.IndexAddr:
		// element of slice/array: depends on the container
		w.walk(a.X, d+1)
		if w.IndexDeps {
			w.walk(a.Index, d+1)
		}
	case *ssa.Global:
		w.leaf(ld, "global load")
	default:
		// load through a pointer value: depends on where the pointer comes from
		w.walk(addr, d+1)
	}
}

// StoresToCell returns every store to local cell a, including stores made by
// closures that capture it.
func (w *Walker) StoresToCell(a *ssa.Alloc) (ss []*ssa.Store) {
	return w.P.StoresToCell(a)
}

// StoresToCell returns every store to local cell a, including stores made by
// closures that capture it (one level of nesting per step, recursively).
func (p *Prog) StoresToCell(a *ssa.Alloc) (ss []*ssa.Store) {
	var visit func(v ssa.Value, depth int)
	visit = func(v ssa.Value, depth int) {
		if v.Referrers() == nil || depth > 4 {
			return
		}
		for _, r := range *v.Referrers() {
			switch x := r.(type) {
			case *ssa.Store:
				if x.Addr == v {
					ss = append(ss, x)
				}
			case *ssa.MakeClosure:
				f, _ := x.Fn.(*ssa.Function)
				if f == nil {
					continue
				}
				for i, b := range x.Bindings {
					if b == v && i < len(f.FreeVars) {
						visit(f.FreeVars[i], depth+1)
					}
				}
			}
		}
	}
	visit(a, 0)
	return ss
}

// FieldStore is one store to a struct field.
type FieldStore struct {
	Val   ssa.Value
	Store *ssa.Store
	In    *ssa.Function
}

// FieldStores returns every store in the repository to field `field` of the
// named struct type typ ("pkg.Type", Short form).
func (p *Prog) FieldStores(typ, field string) []FieldStore {
	if p.fieldStores == nil {
		p.fieldStores = map[string][]FieldStore{}
		for _, fn := range p.AllFns {
			Instrs(fn, func(in ssa.Instruction) {
				st, ok := in.(*ssa.Store)
				if !ok {
					return
				}
				t, f, _, ok := FieldOf(st.Addr)
				if !ok {
					return
				}
				k := t + "." + f
				p.fieldStores[k] = append(p.fieldStores[k], FieldStore{Val: st.Val, Store: st, In: fn})
			})
		}
	}
	return p.fieldStores[typ+"."+field]
}

// IsIntType reports whether t is an integer type.
func IsIntType(t types.Type) bool {
	b, ok := t.Underlying().(*types.Basic)
	return ok && b.Info()&types.IsInteger != 0
}
