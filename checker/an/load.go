// Package an holds the loader and the generic analysis helpers used by the
// rule tables.
package an

import (
	"fmt"
	"go/constant"
	"go/token"
	"go/types"
	"os"
	"sort"
	"strings"

	"golang.org/x/tools/go/packages"
	"golang.org/x/tools/go/ssa"
	"golang.org/x/tools/go/ssa/ssautil"
)

// ModPath is the module path prefix of the analysed repository.
const ModPath = "github.com/AdguardTeam/AdGuardDNS"

// Int is the prefix of the repository's internal packages.
const Int = ModPath + "/internal/"

// BuildConfig describes one build configuration to load.
type BuildConfig struct {
	GOOS string
	CGO  bool
}

func (b BuildConfig) String() string {
	if b.GOOS == "" {
		return "default"
	}
	return b.GOOS
}

// Prog is a loaded, type-checked program lowered to SSA.
type Prog struct {
	Repo        string
	Config      BuildConfig
	Fset        *token.FileSet
	Pkgs        []*packages.Package
	SSA         *ssa.Program
	pkgs        map[string]*packages.Package
	AllFns      []*ssa.Function // every function with a body that belongs to the repository (incl. closures, instances), without synthetic wrappers
	Wrappers    []*ssa.Function // synthetic wrappers (promoted methods, bound methods, thunks)
	fnIndex     map[string]*ssa.Function
	callers     map[*ssa.Function][]Site
	fieldStores map[string][]FieldStore
	invokes     map[string][]ssa.CallInstruction
	asValue     map[*ssa.Function][]ssa.Instruction
	boundOf     map[*ssa.Function]*ssa.Function
}

// Load loads ./... and ./internal/dnsserver/... of the workspace at repo.  If
// overlay is non-nil, it maps absolute file names to replacement contents.
func Load(repo string, bc BuildConfig, overlay map[string][]byte) (p *Prog, err error) {
	env := []string{}
	for _, kv := range os.Environ() {
		if strings.HasPrefix(kv, "GOFLAGS=") || strings.HasPrefix(kv, "GOWORK=") ||
			strings.HasPrefix(kv, "GOOS=") || strings.HasPrefix(kv, "GOARCH=") ||
			strings.HasPrefix(kv, "CGO_ENABLED=") {
			continue
		}
		env = append(env, kv)
	}
	env = append(env, "GOFLAGS=", "GOPROXY=off", "GOSUMDB=off", "GOTOOLCHAIN=local")
	if bc.GOOS != "" {
		env = append(env, "GOOS="+bc.GOOS, "CGO_ENABLED=0")
	}

	cfg := &packages.Config{
		Mode:    packages.LoadAllSyntax,
		Dir:     repo,
		Env:     env,
		Tests:   false,
		Overlay: overlay,
	}
	pkgs, err := packages.Load(cfg, "./...", "./internal/dnsserver/...")
	if err != nil {
		return nil, fmt.Errorf("loading packages: %w", err)
	}
	if len(pkgs) == 0 {
		return nil, fmt.Errorf("no packages loaded from %s", repo)
	}
	var errs []string
	packages.Visit(pkgs, nil, func(pkg *packages.Package) {
		for _, e := range pkg.Errors {
			errs = append(errs, e.Error())
		}
	})
	if len(errs) > 0 {
		sort.Strings(errs)
		if len(errs) > 10 {
			errs = errs[:10]
		}
		return nil, fmt.Errorf("type or load errors: %s", strings.Join(errs, "; "))
	}

	prog, _ := ssautil.AllPackages(pkgs, ssa.InstantiateGenerics)
	prog.Build()

	p = &Prog{
		Repo:    repo,
		Config:  bc,
		Fset:    pkgs[0].Fset,
		Pkgs:    pkgs,
		SSA:     prog,
		pkgs:    map[string]*packages.Package{},
		fnIndex: map[string]*ssa.Function{},
		boundOf: map[*ssa.Function]*ssa.Function{},
	}
	packages.Visit(pkgs, nil, func(pkg *packages.Package) { p.pkgs[pkg.PkgPath] = pkg })

	for fn := range ssautil.AllFunctions(prog) {
		if fn.Blocks == nil {
			continue
		}
		if !p.InRepo(fn) {
			continue
		}
		if IsWrapper(fn) {
			p.Wrappers = append(p.Wrappers, fn)
			continue
		}
		p.AllFns = append(p.AllFns, fn)
	}
	sort.Slice(p.AllFns, func(i, j int) bool { return FnKey(p.AllFns[i]) < FnKey(p.AllFns[j]) })
	for _, fn := range p.AllFns {
		p.fnIndex[FnKey(fn)] = fn
	}

	return p, nil
}

// FnPkg returns the package of fn (following parents and generic origins).
func FnPkg(fn *ssa.Function) *types.Package {
	for f := fn; f != nil; f = f.Parent() {
		if f.Pkg != nil {
			return f.Pkg.Pkg
		}
		if o := f.Origin(); o != nil && o.Pkg != nil {
			return o.Pkg.Pkg
		}
		if obj := f.Object(); obj != nil && obj.Pkg() != nil {
			return obj.Pkg()
		}
	}
	return nil
}

// InRepo reports whether fn is defined in the analysed repository.
func (p *Prog) InRepo(fn *ssa.Function) bool {
	pkg := FnPkg(fn)
	return pkg != nil && strings.HasPrefix(pkg.Path(), ModPath)
}

// FnKey is a stable, position-free name for fn: pkgpath.(Recv).Name[$n][[targs]].
func FnKey(fn *ssa.Function) string {
	pkg := FnPkg(fn)
	pp := ""
	if pkg != nil {
		pp = strings.TrimPrefix(pkg.Path(), Int)
	}
	name := fn.Name()
	if fn.Parent() != nil {
		// closures: parentKey$n
		return FnKey(fn.Parent()) + "$" + strings.TrimPrefix(name, fn.Parent().Name()+"$")
	}
	if recv := fn.Signature.Recv(); recv != nil {
		t := recv.Type()
		ptr := ""
		if pt, ok := t.(*types.Pointer); ok {
			t = pt.Elem()
			ptr = "*"
		}
		tn := t.String()
		if nt, ok := t.(*types.Named); ok {
			tn = nt.Obj().Name()
			if ta := nt.TypeArgs(); ta != nil && ta.Len() > 0 {
				var as []string
				for i := 0; i < ta.Len(); i++ {
					as = append(as, shortType(ta.At(i)))
				}
				tn += "[" + strings.Join(as, ",") + "]"
			}
		}
		return pp + ".(" + ptr + tn + ")." + name
	}
	return pp + "." + name
}

func shortType(t types.Type) string {
	return types.TypeString(t, func(p *types.Package) string {
		return strings.TrimPrefix(p.Path(), Int)
	})
}

// Fn returns the function with the given key (see FnKey) or nil.
func (p *Prog) Fn(key string) *ssa.Function { return p.fnIndex[key] }

// FnsMatching returns all functions whose key starts with prefix.
func (p *Prog) FnsMatching(prefix string) (fns []*ssa.Function) {
	for _, fn := range p.AllFns {
		if strings.HasPrefix(FnKey(fn), prefix) {
			fns = append(fns, fn)
		}
	}
	return fns
}

// Pkg returns the loaded package with the given path relative to internal/ (or
// an absolute import path).
func (p *Prog) Pkg(path string) *packages.Package {
	if pkg, ok := p.pkgs[Int+path]; ok {
		return pkg
	}
	return p.pkgs[path]
}

// Pos formats a position relative to the repository root.
func (p *Prog) Pos(pos token.Pos) string {
	if !pos.IsValid() {
		return "-"
	}
	ps := p.Fset.Position(pos)
	f := strings.TrimPrefix(ps.Filename, p.Repo+"/")
	return fmt.Sprintf("%s:%d", f, ps.Line)
}

// IsTestFile reports whether pos lies in a _test.go file.
func (p *Prog) IsTestFile(pos token.Pos) bool {
	return strings.HasSuffix(p.Fset.Position(pos).Filename, "_test.go")
}

// IsWrapper reports whether fn is a synthetic wrapper (promoted-method wrapper,
// bound-method wrapper or thunk) rather than source code.
func IsWrapper(fn *ssa.Function) bool {
	s := fn.Synthetic
	return strings.HasPrefix(s, "wrapper for") || strings.HasPrefix(s, "bound method wrapper") ||
		strings.HasPrefix(s, "thunk for")
}

// ConstInt returns the integer value of the named constant of package pkg
// (path relative to internal/ or absolute); ok is false if it does not exist.
func (p *Prog) ConstInt(pkg, name string) (v int64, ok bool) {
	pk := p.Pkg(pkg)
	if pk == nil {
		return 0, false
	}
	c, isConst := pk.Types.Scope().Lookup(name).(*types.Const)
	if !isConst {
		return 0, false
	}
	return constant.Int64Val(constant.ToInt(c.Val()))
}

// ConstStr returns the string value of the named constant of package pkg.
func (p *Prog) ConstStr(pkg, name string) (v string, ok bool) {
	pk := p.Pkg(pkg)
	if pk == nil {
		return "", false
	}
	c, isConst := pk.Types.Scope().Lookup(name).(*types.Const)
	if !isConst || c.Val().Kind() != constant.String {
		return "", false
	}
	return constant.StringVal(c.Val()), true
}
