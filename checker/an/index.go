package an

import (
	"go/types"
	"strings"

	"golang.org/x/tools/go/ssa"
)

// Site is a use of a function: either a call instruction with a static callee
// or a MakeClosure that creates it.
type Site struct {
	Call    ssa.CallInstruction // nil for closure creation
	Closure *ssa.MakeClosure    // nil for calls
	In      *ssa.Function
}

// index of callers, built lazily.
func (p *Prog) buildIndex() {
	if p.callers != nil {
		return
	}
	p.callers = map[*ssa.Function][]Site{}
	p.invokes = map[string][]ssa.CallInstruction{}
	p.asValue = map[*ssa.Function][]ssa.Instruction{}
	for _, fn := range p.Wrappers {
		// x.M used as a value, or T.M reached through an interface: the
		// wrapper's single call names the wrapped method
		for _, c := range Calls(fn) {
			if f := StaticCallee(c); f != nil && strings.HasPrefix(fn.Synthetic, "bound method wrapper") {
				p.boundOf[fn] = f
			}
		}
	}
	for _, fn := range p.AllFns {
		Instrs(fn, func(in ssa.Instruction) {
			switch x := in.(type) {
			case ssa.CallInstruction:
				if f := StaticCallee(x); f != nil {
					if t := p.boundOf[f]; t != nil {
						// immediately called bound method value
						f = t
					}
					p.callers[f] = append(p.callers[f], Site{Call: x, In: fn})
				} else if x.Common().IsInvoke() {
					m := x.Common().Method
					p.invokes[m.Name()] = append(p.invokes[m.Name()], x)
				}
			case *ssa.MakeClosure:
				if f, ok := x.Fn.(*ssa.Function); ok {
					if t := p.boundOf[f]; t != nil {
						p.asValue[t] = append(p.asValue[t], x)
					} else {
						p.callers[f] = append(p.callers[f], Site{Closure: x, In: fn})
					}
				}
			}
			// named functions used as values
			for _, op := range in.Operands(nil) {
				f, ok := (*op).(*ssa.Function)
				if !ok || f == nil {
					continue
				}
				if ci, isCall := in.(ssa.CallInstruction); isCall && ci.Common().Value == f {
					continue
				}
				if _, isMC := in.(*ssa.MakeClosure); isMC {
					continue
				}
				p.asValue[f] = append(p.asValue[f], in)
			}
		})
	}
}

// Callers returns the static call sites and closure creations of fn.
func (p *Prog) Callers(fn *ssa.Function) []Site {
	p.buildIndex()
	return p.callers[fn]
}

// ParamIndex returns the index of param in its function's Params, or -1.
func ParamIndex(pa *ssa.Parameter) int {
	for i, x := range pa.Parent().Params {
		if x == pa {
			return i
		}
	}
	return -1
}

// FreeVarIndex returns the index of fv in its function's FreeVars, or -1.
func FreeVarIndex(fv *ssa.FreeVar) int {
	for i, x := range fv.Parent().FreeVars {
		if x == fv {
			return i
		}
	}
	return -1
}

// ArgFor returns the argument passed for parameter index i at call c
// (accounting for the receiver being Args[0] of static method calls).
func ArgFor(c ssa.CallInstruction, i int) ssa.Value {
	args := c.Common().Args
	if c.Common().IsInvoke() {
		if i == 0 {
			return c.Common().Value
		}
		i--
	}
	if i < len(args) {
		return args[i]
	}
	return nil
}

// Returns returns the Return instructions of fn.
func Returns(fn *ssa.Function) (rs []*ssa.Return) {
	Instrs(fn, func(in ssa.Instruction) {
		if r, ok := in.(*ssa.Return); ok {
			rs = append(rs, r)
		}
	})
	return rs
}

// UsedAsValue returns the instructions that use fn as a first-class value
// (method value, callback), i.e. places from which it may be called with
// arguments the caller index does not see.
func (p *Prog) UsedAsValue(fn *ssa.Function) []ssa.Instruction {
	p.buildIndex()
	return p.asValue[fn]
}

// DynamicSites returns the interface-method call sites in the repository that
// may dispatch to method fn (class-hierarchy resolution restricted to fn's
// name and receiver type).
func (p *Prog) DynamicSites(fn *ssa.Function) (cs []ssa.CallInstruction) {
	p.buildIndex()
	recv := fn.Signature.Recv()
	if recv == nil {
		return nil
	}
	for _, c := range p.invokes[fn.Name()] {
		it, ok := c.Common().Value.Type().Underlying().(*types.Interface)
		if !ok {
			continue
		}
		if types.Implements(recv.Type(), it) {
			cs = append(cs, c)
		}
	}
	return cs
}

// ArgSites returns, for parameter index i of fn (receiver is index 0 for
// methods), the argument values passed at every static and interface call
// site, and whether fn additionally escapes as a value (unknown callers).
func (p *Prog) ArgSites(fn *ssa.Function, i int) (args []ArgSite, escapes bool) {
	for _, s := range p.Callers(fn) {
		if s.Call == nil {
			continue
		}
		a := s.Call.Common().Args
		if i < len(a) {
			args = append(args, ArgSite{Val: a[i], Call: s.Call})
		}
	}
	for _, c := range p.DynamicSites(fn) {
		if v := ArgFor(c, i); v != nil {
			args = append(args, ArgSite{Val: v, Call: c, Dynamic: true})
		}
	}
	return args, len(p.UsedAsValue(fn)) > 0
}

// ArgSite is one argument value at one call site.
type ArgSite struct {
	Val     ssa.Value
	Call    ssa.CallInstruction
	Dynamic bool
}

// ReachableFrom returns the repository functions reachable from the given
// roots through static calls, closures created on the way, go/defer targets
// and interface calls resolved by class hierarchy among repository methods.
// skip, if set, prunes call edges.
func (p *Prog) ReachableFrom(roots []*ssa.Function, skip func(c ssa.CallInstruction) bool) map[*ssa.Function]bool {
	seen := map[*ssa.Function]bool{}
	var work []*ssa.Function
	push := func(f *ssa.Function) {
		if f != nil && f.Blocks != nil && p.InRepo(f) && !seen[f] {
			seen[f] = true
			work = append(work, f)
		}
	}
	for _, r := range roots {
		push(r)
	}
	for len(work) > 0 {
		fn := work[len(work)-1]
		work = work[:len(work)-1]
		Instrs(fn, func(in ssa.Instruction) {
			switch x := in.(type) {
			case ssa.CallInstruction:
				if skip != nil && skip(x) {
					return
				}
				if f := StaticCallee(x); f != nil {
					if t := p.boundOf[f]; t != nil {
						f = t
					}
					push(f)
				} else if x.Common().IsInvoke() {
					for _, impl := range p.Implementations(x) {
						push(impl)
					}
				}
			case *ssa.MakeClosure:
				if f, ok := x.Fn.(*ssa.Function); ok {
					if t := p.boundOf[f]; t != nil {
						f = t
					}
					push(f)
				}
			}
		})
	}
	return seen
}
