package an

import (
	"go/token"
	"sort"
	"strings"

	"golang.org/x/tools/go/ssa"
)

// Engine D: which mutexes are held at each instruction.

// AccessPath renders v as a canonical access path: parameters are p0, p1, …
// (receiver first), captured variables fv:name, fields .name; loads are
// transparent.  ok is false for values without such a path.
func AccessPath(v ssa.Value) (path string, ok bool) {
	switch x := v.(type) {
	case *ssa.Parameter:
		return "p" + itoa(ParamIndex(x)), true
	case *ssa.FreeVar:
		return "fv:" + x.Name(), true
	case *ssa.Global:
		return globalKey(x), true
	case *ssa.FieldAddr:
		b, ok := AccessPath(x.X)
		if !ok {
			return "", false
		}
		_, f, _, ok2 := FieldOf(x)
		if !ok2 {
			return "", false
		}
		return b + "." + f, true
	case *ssa.Field:
		b, ok := AccessPath(x.X)
		if !ok {
			return "", false
		}
		_, f, _, ok2 := FieldOf(x)
		if !ok2 {
			return "", false
		}
		return b + "." + f, true
	case *ssa.UnOp:
		if x.Op == token.MUL {
			return AccessPath(x.X)
		}
	case *ssa.ChangeType:
		return AccessPath(x.X)
	case *ssa.MakeInterface:
		return AccessPath(x.X)
	case *ssa.ChangeInterface:
		return AccessPath(x.X)
	case *ssa.Call:
		return "call:" + Short(CalleeName(x)), true
	case *ssa.Extract:
		if c, ok := x.Tuple.(*ssa.Call); ok {
			return "call:" + Short(CalleeName(c)) + "#" + itoa(x.Index), true
		}
		if ta, ok := x.Tuple.(*ssa.TypeAssert); ok && x.Index == 0 {
			return AccessPath(ta.X)
		}
	case *ssa.TypeAssert:
		return AccessPath(x.X)
	case *ssa.Alloc:
		// a local holding a captured variable: name it by its comment
		return "local:" + x.Comment, x.Comment != ""
	}
	return "", false
}

func itoa(i int) string {
	if i < 0 {
		return "-"
	}
	s := ""
	if i == 0 {
		return "0"
	}
	for i > 0 {
		s = string(rune('0'+i%10)) + s
		i /= 10
	}
	return s
}

// LockOp classifies a call as a lock operation: kind is "lock", "rlock",
// "unlock", "runlock" or "", and path the access path of the mutex.
func LockOp(c ssa.CallInstruction) (kind, path string) {
	cc := c.Common()
	name := ""
	var recv ssa.Value
	if cc.IsInvoke() {
		if TypeName(cc.Value.Type()) != "sync.Locker" {
			return "", ""
		}
		name = cc.Method.Name()
		recv = cc.Value
	} else {
		f := StaticCallee(c)
		if f == nil {
			return "", ""
		}
		full := FullName(f)
		switch {
		case strings.HasPrefix(full, "(*sync.Mutex)."), strings.HasPrefix(full, "(*sync.RWMutex)."):
			name = f.Name()
			if len(cc.Args) == 0 {
				return "", ""
			}
			recv = cc.Args[0]
		default:
			return "", ""
		}
	}
	p, ok := AccessPath(recv)
	if !ok {
		p = "?" + recv.Name()
	}
	switch name {
	case "Lock":
		return "lock", p
	case "RLock":
		return "rlock", p
	case "Unlock":
		return "unlock", p
	case "RUnlock":
		return "runlock", p
	}
	return "", ""
}

// Held maps a mutex access path to "w" (write/exclusive) or "r" (read).
type Held map[string]string

func (h Held) clone() Held {
	c := Held{}
	for k, v := range h {
		c[k] = v
	}
	return c
}

// String renders the set.
func (h Held) String() string {
	var ks []string
	for k, v := range h {
		ks = append(ks, k+":"+v)
	}
	sort.Strings(ks)
	return "{" + strings.Join(ks, " ") + "}"
}

// HasSuffix returns the mode with which a mutex whose path ends with suffix is
// held ("" if none).
func (h Held) HasSuffix(suffix string) string {
	best := ""
	for k, v := range h {
		if k == suffix || strings.HasSuffix(k, "."+suffix) || strings.HasSuffix(k, suffix) {
			if v == "w" || best == "" {
				best = v
			}
		}
	}
	return best
}

// HeldLocks computes, for every instruction of fn, the mutexes that are held
// on every path reaching it (must analysis).  A deferred Unlock keeps the
// mutex held until the function exits.
func HeldLocks(fn *ssa.Function) map[ssa.Instruction]Held {
	res := map[ssa.Instruction]Held{}
	in := map[*ssa.BasicBlock]Held{}
	visited := map[*ssa.BasicBlock]bool{}
	meet := func(a, b Held) Held {
		if a == nil {
			return b.clone()
		}
		out := Held{}
		for k, v := range a {
			if w, ok := b[k]; ok {
				if v == "r" || w == "r" {
					out[k] = "r"
				} else {
					out[k] = "w"
				}
			}
		}
		return out
	}
	equal := func(a, b Held) bool {
		if len(a) != len(b) {
			return false
		}
		for k, v := range a {
			if b[k] != v {
				return false
			}
		}
		return true
	}
	work := []*ssa.BasicBlock{fn.Blocks[0]}
	in[fn.Blocks[0]] = Held{}
	for len(work) > 0 {
		b := work[0]
		work = work[1:]
		visited[b] = true
		cur := in[b].clone()
		for _, ins := range b.Instrs {
			res[ins] = cur.clone()
			c, ok := ins.(ssa.CallInstruction)
			if !ok {
				continue
			}
			if _, isDefer := c.(*ssa.Defer); isDefer {
				continue // deferred unlock: held to the end
			}
			if _, isGo := c.(*ssa.Go); isGo {
				continue
			}
			switch kind, path := LockOp(c); kind {
			case "lock":
				cur[path] = "w"
			case "rlock":
				cur[path] = "r"
			case "unlock", "runlock":
				delete(cur, path)
			}
		}
		for _, s := range b.Succs {
			old, seen := in[s]
			var nw Held
			if !seen {
				nw = cur.clone()
			} else {
				nw = meet(old, cur)
			}
			if !seen || !equal(old, nw) {
				in[s] = nw
				work = append(work, s)
			}
		}
	}
	return res
}

// HeldAt reports with which mode a mutex whose path ends with suffix is held
// at instruction ins, looking — when it is not held inside ins's function —
// at every static call site of that function (helpers that "assume the lock
// is held"), up to depth levels.  why describes the failing site.
func (p *Prog) HeldAt(ins ssa.Instruction, suffix string, depth int, cache map[*ssa.Function]map[ssa.Instruction]Held) (mode string, why string) {
	fn := ins.Parent()
	hl, ok := cache[fn]
	if !ok {
		hl = HeldLocks(fn)
		cache[fn] = hl
	}
	if m := hl[ins].HasSuffix(suffix); m != "" {
		return m, ""
	}
	if depth == 0 {
		return "", "not held in " + FnKey(fn)
	}
	// closures invoked immediately or deferred inside their parent: look at the creation site
	sites := p.Callers(fn)
	if len(sites) == 0 {
		return "", "not held in " + FnKey(fn) + " (no static callers)"
	}
	if len(p.UsedAsValue(fn)) > 0 {
		return "", "not held in " + FnKey(fn) + " (also used as a value)"
	}
	mode = "w"
	for _, s := range sites {
		var at ssa.Instruction
		switch {
		case s.Call != nil:
			if _, isGo := s.Call.(*ssa.Go); isGo {
				return "", "not held in " + FnKey(fn) + " (started with go at " + p.Pos(s.Call.Pos()) + ")"
			}
			at = s.Call
		case s.Closure != nil:
			// the closure must be called immediately / deferred in the parent
			var callAt ssa.Instruction
			for _, r := range *s.Closure.Referrers() {
				if c, ok := r.(ssa.CallInstruction); ok && c.Common().Value == ssa.Value(s.Closure) {
					if _, isGo := c.(*ssa.Go); !isGo {
						callAt = c
					}
				}
			}
			if callAt == nil {
				return "", "not held in " + FnKey(fn) + " (closure escapes)"
			}
			at = callAt
		}
		m, w := p.HeldAt(at, suffix, depth-1, cache)
		if m == "" {
			return "", w + " via " + FnKey(fn)
		}
		if m == "r" {
			mode = "r"
		}
	}
	return mode, ""
}
