package profiledb_test

import (
	"context"
	"path/filepath"
	"sync"
	"testing"
	"time"

	"github.com/AdguardTeam/AdGuardDNS/internal/agd"
	"github.com/AdguardTeam/AdGuardDNS/internal/agdtest"
	"github.com/AdguardTeam/AdGuardDNS/internal/profiledb"
	"github.com/AdguardTeam/AdGuardDNS/internal/profiledb/internal/profiledbtest"
	"github.com/AdguardTeam/golibs/logutil/slogutil"
	"github.com/AdguardTeam/golibs/testutil"
	"github.com/stretchr/testify/assert"
	"github.com/stretchr/testify/require"
)

// seedBackend is a tiny model of the profile backend: it keeps the current
// profiles and devices together with the time of their last change, answers a
// request with a zero sync time with everything and any other request only with
// the profiles that have changed since the requested time.
type seedBackend struct {
	mu       sync.Mutex
	profiles map[agd.ProfileID]*seedBackendProfile
	requests []time.Time
}

// seedBackendProfile is a profile, its devices and the time of its last change.
type seedBackendProfile struct {
	changed time.Time
	prof    *agd.Profile
	devs    []*agd.Device
}

// set stores or replaces a profile in the backend.
func (b *seedBackend) set(prof *agd.Profile, devs []*agd.Device) {
	b.mu.Lock()
	defer b.mu.Unlock()

	b.profiles[prof.ID] = &seedBackendProfile{
		changed: time.Now(),
		prof:    prof,
		devs:    devs,
	}
}

// onProfiles is the implementation of [profiledb.Storage.Profiles].
func (b *seedBackend) onProfiles(
	_ context.Context,
	req *profiledb.StorageProfilesRequest,
) (resp *profiledb.StorageProfilesResponse, err error) {
	b.mu.Lock()
	defer b.mu.Unlock()

	b.requests = append(b.requests, req.SyncTime)

	resp = &profiledb.StorageProfilesResponse{
		SyncTime: time.Now().Round(0).UTC(),
	}

	for _, p := range b.profiles {
		if !req.SyncTime.IsZero() && !p.changed.After(req.SyncTime) {
			continue
		}

		resp.Profiles = append(resp.Profiles, p.prof)
		resp.Devices = append(resp.Devices, p.devs...)
	}

	return resp, nil
}

// newSeedDB returns a database that uses b and the file cache at cachePath.
func newSeedDB(tb testing.TB, b *seedBackend, cachePath string) (db *profiledb.Default) {
	tb.Helper()

	db, err := profiledb.New(&profiledb.Config{
		Logger: slogutil.NewDiscardLogger(),
		Storage: &agdtest.ProfileStorage{
			OnCreateAutoDevice: func(
				_ context.Context,
				_ *profiledb.StorageCreateAutoDeviceRequest,
			) (resp *profiledb.StorageCreateAutoDeviceResponse, err error) {
				panic("not implemented")
			},
			OnProfiles: b.onProfiles,
		},
		ErrColl:              agdtest.NewErrorCollector(),
		Metrics:              profiledb.EmptyMetrics{},
		CacheFilePath:        cachePath,
		FullSyncIvl:          1 * time.Hour,
		FullSyncRetryIvl:     1 * time.Hour,
		ResponseSizeEstimate: profiledbtest.RespSzEst,
	})
	require.NoError(tb, err)
	require.NotNil(tb, db)

	return db
}

// TestSeed_restartWithDevicelessCache checks that a database that is restarted
// from a file cache written by a full synchronisation that contained profiles
// but no devices answers the lookups as before the restart once it has
// synchronised again.
func TestSeed_restartWithDevicelessCache(t *testing.T) {
	t.Parallel()

	// The only profile allows automatically-created devices and does not have
	// any devices yet.
	prof, _ := profiledbtest.NewProfile(t)
	prof.DeviceIDs = nil
	prof.AutoDevicesEnabled = true

	backend := &seedBackend{
		profiles: map[agd.ProfileID]*seedBackendProfile{},
	}
	backend.set(prof, nil)

	cachePath := filepath.Join(t.TempDir(), "profiles.pb")

	// First run: the full synchronisation writes the cache.
	db := newSeedDB(t, backend, cachePath)

	ctx := testutil.ContextWithTimeout(t, testTimeout)
	require.NoError(t, db.Refresh(ctx))

	// The profile is known, it just does not have the device yet.  This is the
	// answer that makes the device finder create the automatic device.
	_, _, err := db.ProfileByHumanID(ctx, profiledbtest.ProfileID, profiledbtest.HumanIDLower)
	require.ErrorIs(t, err, profiledb.ErrDeviceNotFound)

	// Let some time pass, so that the sync times are distinguishable.
	time.Sleep(10 * time.Millisecond)

	// Second run: restart from the file cache and synchronise.
	db = newSeedDB(t, backend, cachePath)

	ctx = testutil.ContextWithTimeout(t, testTimeout)
	require.NoError(t, db.Refresh(ctx))

	_, _, err = db.ProfileByHumanID(ctx, profiledbtest.ProfileID, profiledbtest.HumanIDLower)
	assert.ErrorIs(
		t,
		err,
		profiledb.ErrDeviceNotFound,
		"the profile from the last synchronisation is lost after the restart; requests: %v",
		backend.requests,
	)

	// A device that is added after the restart is received, but it must be
	// found together with its profile.
	_, dev := profiledbtest.NewProfile(t)
	dev.HumanIDLower = profiledbtest.HumanIDLower

	profWithDev := &agd.Profile{}
	*profWithDev = *prof
	profWithDev.DeviceIDs = []agd.DeviceID{dev.ID}
	backend.set(profWithDev, []*agd.Device{dev})

	require.NoError(t, db.Refresh(ctx))

	p, d, err := db.ProfileByDeviceID(ctx, dev.ID)
	require.NoError(t, err)
	assert.Equal(t, profWithDev, p)
	assert.Equal(t, dev, d)
}
