package ratelimit_test

import (
	"context"
	"net/netip"
	"testing"
	"time"

	"github.com/AdguardTeam/AdGuardDNS/internal/dnsserver/dnsservertest"
	"github.com/AdguardTeam/AdGuardDNS/internal/dnsserver/ratelimit"
	"github.com/c2h5oh/datasize"
	"github.com/miekg/dns"
	"github.com/stretchr/testify/assert"
	"github.com/stretchr/testify/require"
)

// TestBackoff_slidingWindowAcrossInterval checks that the per-subnet window is
// a sliding one:  requests made shortly before one interval has passed since
// the very first request of the subnet must still be counted against the
// requests made shortly after that moment.
func TestBackoff_slidingWindowAcrossInterval(t *testing.T) {
	const (
		count = 2
		ivl   = 2 * time.Second
	)

	rl := ratelimit.NewBackoff(&ratelimit.BackoffConfig{
		Allowlist: ratelimit.NewDynamicAllowlist(nil, nil),
		// Make the backoff logic irrelevant for this test.
		Period:               time.Minute,
		Duration:             time.Minute,
		Count:                1000,
		ResponseSizeEstimate: 1 * datasize.KB,
		IPv4Count:            count,
		IPv4Interval:         ivl,
		IPv4SubnetKeyLen:     24,
		IPv6Count:            count,
		IPv6Interval:         ivl,
		IPv6SubnetKeyLen:     48,
		RefuseANY:            false,
	})

	ctx := context.Background()
	req := dnsservertest.CreateMessage("example.org.", dns.TypeA)
	ip := netip.MustParseAddr("192.0.2.10")
	neighbour := netip.MustParseAddr("192.0.2.200")

	isDropped := func(addr netip.Addr) (drop bool) {
		drop, allowlisted, err := rl.IsRateLimited(ctx, req, addr)
		require.NoError(t, err)
		require.False(t, allowlisted)

		return drop
	}

	start := time.Now()

	// t = 0:  the first request of the subnet.
	require.False(t, isDropped(ip), "request 1")

	// t = 0.75 ivl:  the second request;  still within the limit.
	time.Sleep(ivl * 3 / 4)
	second := time.Now()
	require.False(t, isDropped(neighbour), "request 2")

	// t = 1.1 ivl:  request 1 is out of the window now, so there is only
	// request 2 in it, and this one must pass.
	time.Sleep(time.Until(start.Add(ivl + ivl/10)))
	require.False(t, isDropped(ip), "request 3")

	// Immediately after:  requests 2 and 3 are both within the last interval,
	// which is already the configured number of requests, so this one must
	// be dropped.
	drop := isDropped(neighbour)
	if time.Since(second) >= ivl {
		t.Skip("the machine is too slow for this timing-based test")
	}

	assert.True(t, drop, "request 4 must be dropped: two requests within the last interval")
}
