package dnsserver_test

import (
	"context"
	"testing"
	"time"

	"github.com/AdguardTeam/AdGuardDNS/internal/dnsserver"
	"github.com/AdguardTeam/golibs/testutil"
	"github.com/miekg/dns"
	"github.com/stretchr/testify/assert"
	"github.com/stretchr/testify/require"
)

// F64 (C01): when the handler fails because the request's own context has
// expired (handle timeout below the upstream timeout, as in config.dist.yaml),
// the SERVFAIL was written under that expired context: the write deadline was
// already in the past, so a plain-DNS client got no response at all over UDP and
// TCP, while DoH, DoQ and DNSCrypt clients got the SERVFAIL.
func TestF64ServfailAfterContextExpiry(t *testing.T) {
	h := dnsserver.HandlerFunc(func(ctx context.Context, _ dnsserver.ResponseWriter, _ *dns.Msg) (err error) {
		<-ctx.Done()

		return ctx.Err()
	})

	conf := dnsserver.ConfigDNS{
		ConfigBase: dnsserver.ConfigBase{
			Name:           "test",
			Addr:           "127.0.0.1:0",
			Handler:        h,
			RequestContext: dnsserver.NewTimeoutContextConstructor(100 * time.Millisecond),
		},
		MaxUDPRespSize: dns.MaxMsgSize,
	}
	s := dnsserver.NewServerDNS(conf)
	require.NoError(t, s.Start(context.Background()))
	testutil.CleanupAndRequireSuccess(t, func() (err error) {
		return s.Shutdown(context.Background())
	})

	for _, network := range []string{"udp", "tcp"} {
		t.Run(network, func(t *testing.T) {
			addr := s.LocalUDPAddr().String()
			if network == "tcp" {
				addr = s.LocalTCPAddr().String()
			}

			req := (&dns.Msg{}).SetQuestion("example.org.", dns.TypeA)
			c := &dns.Client{Net: network, Timeout: 2 * time.Second}
			resp, _, err := c.Exchange(req, addr)
			require.NoError(t, err)
			assert.Equal(t, dns.RcodeServerFailure, resp.Rcode)
			assert.Equal(t, req.Id, resp.Id)
		})
	}
}
