package cmd

import (
	"os"
	"testing"

	"github.com/stretchr/testify/assert"
	"github.com/stretchr/testify/require"
	"gopkg.in/yaml.v2"
)

// F53 (C09): the documentation and the sample configuration name the switch
// that makes the server refuse ANY queries `ratelimit.refuseany`, but the
// configuration structure read `refuse_any`: the documented setting was
// silently ignored and ANY queries were not refused.
func TestF53RefuseANYKey(t *testing.T) {
	data, err := os.ReadFile("../../config.dist.yaml")
	require.NoError(t, err)

	c := &configuration{}
	err = yaml.Unmarshal(data, c)
	require.NoError(t, err)
	require.NotNil(t, c.RateLimit)

	// The sample configuration has "refuseany: true".
	assert.True(t, c.RateLimit.RefuseANY)
}
