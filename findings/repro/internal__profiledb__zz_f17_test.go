package profiledb_test

import (
	"context"
	"testing"
	"time"

	"github.com/AdguardTeam/AdGuardDNS/internal/agd"
	"github.com/AdguardTeam/AdGuardDNS/internal/agdtest"
	"github.com/AdguardTeam/AdGuardDNS/internal/dnsmsg"
	"github.com/AdguardTeam/AdGuardDNS/internal/profiledb"
	"github.com/AdguardTeam/AdGuardDNS/internal/profiledb/internal/profiledbtest"
	"github.com/AdguardTeam/golibs/logutil/slogutil"
	"github.com/AdguardTeam/golibs/testutil"
	"github.com/stretchr/testify/assert"
	"github.com/stretchr/testify/require"
)

// TestF17 shows that after a device with a human-readable ID has been moved
// from profile P1 to profile P2 by an incremental sync, a lookup of its human
// ID under P1 still succeeds and returns profile P2.
func TestF17(t *testing.T) {
	const (
		prof1 agd.ProfileID = "prof1111"
		prof2 agd.ProfileID = "prof2222"
		devID agd.DeviceID  = "dev11111"
	)

	humanID := agd.HumanIDLower("my-device")
	dev := &agd.Device{ID: devID, HumanIDLower: humanID}

	mkProf := func(id agd.ProfileID, devs ...agd.DeviceID) (p *agd.Profile) {
		return &agd.Profile{BlockingMode: &dnsmsg.BlockingModeNullIP{}, ID: id, DeviceIDs: devs}
	}

	resps := make(chan *profiledb.StorageProfilesResponse, 2)
	// Full sync: the device belongs to P1.
	resps <- &profiledb.StorageProfilesResponse{
		Profiles: []*agd.Profile{mkProf(prof1, devID), mkProf(prof2)},
		Devices:  []*agd.Device{dev},
	}
	// Incremental sync: the device has been moved to P2.
	resps <- &profiledb.StorageProfilesResponse{
		Profiles: []*agd.Profile{mkProf(prof1), mkProf(prof2, devID)},
		Devices:  []*agd.Device{dev},
	}

	ps := &agdtest.ProfileStorage{
		OnCreateAutoDevice: func(
			_ context.Context,
			_ *profiledb.StorageCreateAutoDeviceRequest,
		) (resp *profiledb.StorageCreateAutoDeviceResponse, err error) {
			panic("not implemented")
		},
		OnProfiles: func(
			_ context.Context,
			_ *profiledb.StorageProfilesRequest,
		) (resp *profiledb.StorageProfilesResponse, err error) {
			resp, _ = testutil.RequireReceive(t, resps, testTimeout)

			return resp, nil
		},
	}

	db, err := profiledb.New(&profiledb.Config{
		Logger:               slogutil.NewDiscardLogger(),
		Storage:              ps,
		ErrColl:              agdtest.NewErrorCollector(),
		Metrics:              profiledb.EmptyMetrics{},
		CacheFilePath:        "none",
		FullSyncIvl:          1 * time.Hour,
		FullSyncRetryIvl:     1 * time.Hour,
		ResponseSizeEstimate: profiledbtest.RespSzEst,
	})
	require.NoError(t, err)

	ctx := testutil.ContextWithTimeout(t, testTimeout)
	require.NoError(t, db.Refresh(ctx))

	p, d, err := db.ProfileByHumanID(ctx, prof1, humanID)
	require.NoError(t, err)
	require.Equal(t, prof1, p.ID)
	require.Equal(t, devID, d.ID)

	require.NoError(t, db.Refresh(ctx))

	// The device now belongs to P2.
	p, d, err = db.ProfileByHumanID(ctx, prof2, humanID)
	require.NoError(t, err)
	assert.Equal(t, prof2, p.ID)
	assert.Equal(t, devID, d.ID)

	// No device of P1 has this human ID any more.
	p, d, err = db.ProfileByHumanID(ctx, prof1, humanID)
	if assert.Error(t, err, "lookup (P1, human id) after the move returned profile %v", pid(p)) {
		assert.ErrorIs(t, err, profiledb.ErrDeviceNotFound)
	}
	assert.Nil(t, p)
	assert.Nil(t, d)
}

func pid(p *agd.Profile) (id agd.ProfileID) {
	if p == nil {
		return ""
	}

	return p.ID
}
