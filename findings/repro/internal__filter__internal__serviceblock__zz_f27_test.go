package serviceblock_test

import (
	"context"
	"net/http"
	"net/http/httptest"
	"net/url"
	"os"
	"path/filepath"
	"sync/atomic"
	"testing"
	"time"

	"github.com/AdguardTeam/AdGuardDNS/internal/agdcache"
	"github.com/AdguardTeam/AdGuardDNS/internal/agdtest"
	"github.com/AdguardTeam/AdGuardDNS/internal/filter"
	"github.com/AdguardTeam/AdGuardDNS/internal/filter/internal"
	"github.com/AdguardTeam/AdGuardDNS/internal/filter/internal/filtertest"
	"github.com/AdguardTeam/AdGuardDNS/internal/filter/internal/refreshable"
	"github.com/AdguardTeam/AdGuardDNS/internal/filter/internal/serviceblock"
	"github.com/AdguardTeam/golibs/logutil/slogutil"
	"github.com/stretchr/testify/require"
)

// F27: a downloaded blocked-service index that cannot be used replaces the
// on-disk copy; a restart (acceptStale) then fails.
func TestF27_UnusableIndexCommitted(t *testing.T) {
	var bad atomic.Bool
	srv := httptest.NewServer(http.HandlerFunc(func(w http.ResponseWriter, _ *http.Request) {
		if bad.Load() {
			_, _ = w.Write([]byte("not json"))
			return
		}
		_, _ = w.Write([]byte(filtertest.BlockedServiceIndex))
	}))
	t.Cleanup(srv.Close)
	u, err := url.Parse(srv.URL)
	require.NoError(t, err)

	cachePath := filepath.Join(t.TempDir(), "services.json")
	mk := func() *serviceblock.Filter {
		f, nerr := serviceblock.New(&serviceblock.Config{
			Refreshable: &refreshable.Config{
				Logger: slogutil.NewDiscardLogger(), URL: u, ID: internal.IDBlockedService,
				CachePath: cachePath, Staleness: time.Nanosecond, Timeout: filtertest.Timeout,
				MaxSize: filtertest.FilterMaxSize,
			},
			ErrColl: agdtest.NewErrorCollector(), Metrics: filter.EmptyMetrics{},
		})
		require.NoError(t, nerr)
		return f
	}
	ctx := context.Background()
	f := mk()
	require.NoError(t, f.Refresh(ctx, agdcache.EmptyManager{}, 0, false, false))
	good, err := os.ReadFile(cachePath)
	require.NoError(t, err)

	bad.Store(true)
	time.Sleep(2 * time.Millisecond)
	err = f.Refresh(ctx, agdcache.EmptyManager{}, 0, false, false)
	require.Error(t, err)
	require.Len(t, f.RuleLists(ctx, []internal.BlockedServiceID{filtertest.BlockedServiceID1}), 1)

	now, err := os.ReadFile(cachePath)
	require.NoError(t, err)
	t.Logf("on disk after the rejected download: %q", now)
	if string(now) != string(good) {
		t.Errorf("the rejected index replaced the on-disk copy")
	}

	// Restart: the stale cache is accepted without going to the URL.
	f2 := mk()
	err = f2.Refresh(ctx, agdcache.EmptyManager{}, 0, false, true)
	if err != nil {
		t.Errorf("restart with the cache left by the rejected download fails: %v", err)
	}
}
