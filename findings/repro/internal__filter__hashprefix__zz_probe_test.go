package hashprefix_test

import (
	"context"
	"log/slog"
	"net/url"
	"os"
	"path/filepath"
	"sync"
	"testing"
	"time"

	"github.com/AdguardTeam/AdGuardDNS/internal/agdcache"
	"github.com/AdguardTeam/AdGuardDNS/internal/dnsmsg"
	"github.com/AdguardTeam/AdGuardDNS/internal/filter"
	"github.com/AdguardTeam/AdGuardDNS/internal/filter/hashprefix"
	"github.com/miekg/dns"
)

type noColl struct{}

func (noColl) Collect(context.Context, error) {}

type blockStat struct {
	mu    sync.Mutex
	block chan struct{}
	hit   chan struct{}
	armed bool
}

func (s *blockStat) OnClone(bool) {
	s.mu.Lock()
	armed := s.armed
	s.armed = false
	s.mu.Unlock()
	if armed {
		close(s.hit)
		<-s.block
	}
}

func newCons(t *testing.T, cl *dnsmsg.Cloner, ttl time.Duration) *dnsmsg.Constructor {
	c, err := dnsmsg.NewConstructor(&dnsmsg.ConstructorConfig{
		Cloner: cl, StructuredErrors: &dnsmsg.StructuredDNSErrorsConfig{Enabled: false},
		BlockingMode: &dnsmsg.BlockingModeNullIP{}, FilteredResponseTTL: ttl,
	})
	if err != nil {
		t.Fatal(err)
	}
	return c
}

func TestProbeHashprefixCache(t *testing.T) {
	dir := t.TempDir()
	list := filepath.Join(dir, "list.txt")
	_ = os.WriteFile(list, []byte("bad.example\n"), 0o600)
	st := &blockStat{block: make(chan struct{}), hit: make(chan struct{})}
	cl := dnsmsg.NewCloner(st)
	hs, _ := hashprefix.NewStorage("")
	f, err := hashprefix.NewFilter(&hashprefix.FilterConfig{
		Logger: slog.Default(), Cloner: cl, CacheManager: agdcache.EmptyManager{}, Hashes: hs,
		URL: &url.URL{Scheme: "file", Path: list}, ErrColl: noColl{}, Metrics: filter.EmptyMetrics{},
		ID: filter.IDAdultBlocking, CachePath: filepath.Join(dir, "cache"), ReplacementHost: "1.2.3.4",
		Staleness: time.Hour, RefreshTimeout: time.Second, CacheCount: 100, MaxSize: 1 << 20,
	})
	if err != nil {
		t.Fatal(err)
	}
	ctx := context.Background()
	if err = f.RefreshInitial(ctx); err != nil {
		t.Fatal(err)
	}
	mk := func(c *dnsmsg.Constructor) *filter.Request {
		m := new(dns.Msg)
		m.SetQuestion("bad.example.", dns.TypeA)
		return &filter.Request{DNS: m, Messages: c, Host: "bad.example", QType: dns.TypeA, QClass: dns.ClassINET}
	}
	r1, _ := f.FilterRequest(ctx, mk(newCons(t, cl, 10*time.Second)))
	r2, _ := f.FilterRequest(ctx, mk(newCons(t, cl, 3600*time.Second)))
	t.Logf("requester A (ttl 10): %d; requester B (ttl 3600): %d",
		r1.(*filter.ResultModifiedResponse).Msg.Answer[0].Header().Ttl,
		r2.(*filter.ResultModifiedResponse).Msg.Answer[0].Header().Ttl)

	// F9: refresh racing with a query.  The query computes its verdict from the
	// old list, then blocks inside setInCache (Cloner stat hook); meanwhile the
	// list is refreshed to no longer contain the host.
	_ = os.WriteFile(list, []byte("other.example\n"), 0o600)
	f2req := func() filter.Result {
		m := new(dns.Msg)
		m.SetQuestion("bad.example.", dns.TypeAAAA)
		r, _ := f.FilterRequest(ctx, &filter.Request{DNS: m, Messages: newCons(t, cl, time.Second), Host: "bad.example", QType: dns.TypeAAAA, QClass: dns.ClassINET})
		return r
	}
	st.mu.Lock()
	st.armed = true
	st.mu.Unlock()
	done := make(chan filter.Result)
	go func() { done <- f2req() }()
	<-st.hit
	if err = f.Refresh(ctx); err != nil {
		t.Fatal(err)
	}
	close(st.block)
	<-done
	r := f2req()
	t.Logf("after refresh removed bad.example, AAAA verdict from filter: %v (nil means not filtered)", r)
}
