package ecscache

import (
	"net"
	"net/netip"
	"testing"

	"github.com/AdguardTeam/AdGuardDNS/internal/dnsmsg"
	"github.com/AdguardTeam/golibs/netutil"
	"github.com/miekg/dns"
)

// F12: only the first ECS option of the upstream request is rewritten.
func TestProbeDupECS(t *testing.T) {
	req := new(dns.Msg)
	req.SetQuestion("example.org.", dns.TypeA)
	req.SetEdns0(1232, false)
	opt := req.IsEdns0()
	opt.Option = append(opt.Option,
		&dns.EDNS0_SUBNET{Code: dns.EDNS0SUBNET, Family: 1, SourceNetmask: 24, Address: net.IP{1, 2, 3, 0}},
		&dns.EDNS0_SUBNET{Code: dns.EDNS0SUBNET, Family: 1, SourceNetmask: 32, Address: net.IP{9, 9, 9, 9}},
	)
	err := setECS(req, &dnsmsg.ECS{Subnet: netip.MustParsePrefix("100.64.0.0/10")}, netutil.AddrFamilyIPv4, false)
	t.Logf("err=%v", err)
	for _, o := range req.IsEdns0().Option {
		t.Logf("  upstream option: %s", o.String())
	}
}
