package hashprefix_test

import (
	"testing"

	"github.com/AdguardTeam/AdGuardDNS/internal/agdtest"
	"github.com/AdguardTeam/AdGuardDNS/internal/dnsmsg"
	"github.com/AdguardTeam/AdGuardDNS/internal/dnsserver/dnsservertest"
	"github.com/AdguardTeam/AdGuardDNS/internal/filter"
	"github.com/AdguardTeam/AdGuardDNS/internal/filter/internal"
	"github.com/AdguardTeam/AdGuardDNS/internal/filter/internal/filtertest"
	"github.com/AdguardTeam/golibs/testutil"
	"github.com/miekg/dns"
	"github.com/stretchr/testify/assert"
	"github.com/stretchr/testify/require"
)

// TestF19 shows that the blocked response to an HTTPS question of a client
// whose blocking mode is NXDOMAIN loses its response code when it is served
// from the filter's result cache.
func TestF19(t *testing.T) {
	msgs, err := dnsmsg.NewConstructor(&dnsmsg.ConstructorConfig{
		Cloner:              agdtest.NewCloner(),
		BlockingMode:        &dnsmsg.BlockingModeNXDOMAIN{},
		StructuredErrors:    agdtest.NewSDEConfig(true),
		FilteredResponseTTL: agdtest.FilteredResponseTTL,
		EDEEnabled:          true,
	})
	require.NoError(t, err)

	// A filter that answers with an IP address of a block page.
	f := filtertest.NewHashprefixFilterWithRepl(t, filter.IDAdultBlocking, filtertest.IPv4AdultContentReplStr)
	ctx := testutil.ContextWithTimeout(t, filtertest.Timeout)

	var rcodes []int
	for range 3 {
		req := dnsservertest.NewReq(dns.Fqdn(filtertest.HostAdultContent), dns.TypeHTTPS, dns.ClassINET)
		r, ferr := f.FilterRequest(ctx, &internal.Request{
			DNS:      req,
			Messages: msgs,
			Host:     filtertest.HostAdultContent,
			QType:    dns.TypeHTTPS,
		})
		require.NoError(t, ferr)

		mr := testutil.RequireTypeAssert[*internal.ResultModifiedResponse](t, r)
		rcodes = append(rcodes, mr.Msg.Rcode)
	}

	assert.Equal(t, []int{dns.RcodeNameError, dns.RcodeNameError, dns.RcodeNameError}, rcodes)
}
