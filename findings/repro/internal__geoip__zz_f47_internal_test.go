package geoip

import (
	"net/netip"
	"testing"
)

// TestF47 shows that the "not broad enough" test of replaceSubnet is applied
// only to the first network of a key: a later, much narrower network replaces a
// broad one when its length happens to be nearer to the desired one, so the
// subnet sent upstream for a country or location can be a /28 or even a /32.
func TestF47(t *testing.T) {
	for _, tc := range [][2]string{{"10.0.0.0/16", "10.0.5.16/28"}, {"10.0.0.0/15", "10.0.5.17/32"}} {
		m := countrySubnets{}
		replaceSubnet(m, CountryUS, netip.MustParsePrefix(tc[0]), desiredIPv4SubnetLength)
		replaceSubnet(m, CountryUS, netip.MustParsePrefix(tc[1]), desiredIPv4SubnetLength)
		if got := m[CountryUS]; got.Bits() > desiredIPv4SubnetLength {
			t.Errorf("after %s and %s the subnet of the country is %s", tc[0], tc[1], got)
		}
	}
}
