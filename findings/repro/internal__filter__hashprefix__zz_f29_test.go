package hashprefix_test

import (
	"context"
	"net/http"
	"os"
	"strings"
	"testing"

	"github.com/AdguardTeam/AdGuardDNS/internal/agdcache"
	"github.com/AdguardTeam/AdGuardDNS/internal/agdtest"
	"github.com/AdguardTeam/AdGuardDNS/internal/filter"
	"github.com/AdguardTeam/AdGuardDNS/internal/filter/hashprefix"
	"github.com/AdguardTeam/AdGuardDNS/internal/filter/internal"
	"github.com/AdguardTeam/AdGuardDNS/internal/filter/internal/filtertest"
	"github.com/AdguardTeam/golibs/logutil/slogutil"
	"github.com/AdguardTeam/golibs/testutil"
	"github.com/stretchr/testify/require"
)

// F29: a hash-prefix host list that the storage rejects (a line longer than
// bufio.Scanner's 64 KiB token limit) has already replaced the cache file; the
// next start loads the rejected file and fails.
func TestF29_RejectedHostListCommitted(t *testing.T) {
	body := filtertest.HostAdultContent + "\n" + strings.Repeat("a", 70_000) + "\n"
	refrCh := make(chan struct{}, 1)
	cachePath, srvURL := filtertest.PrepareRefreshable(t, refrCh, body, http.StatusOK)
	require.NoError(t, os.WriteFile(cachePath, []byte(filtertest.HostAdultContent+"\n"), 0o600))

	mk := func() *hashprefix.Filter {
		strg, err := hashprefix.NewStorage("")
		require.NoError(t, err)
		f, err := hashprefix.NewFilter(&hashprefix.FilterConfig{
			Logger: slogutil.NewDiscardLogger(), Cloner: agdtest.NewCloner(), CacheManager: agdcache.EmptyManager{},
			Hashes: strg, URL: srvURL, ErrColl: &agdtest.ErrorCollector{OnCollect: func(_ context.Context, _ error) {}}, Metrics: filter.EmptyMetrics{},
			ID: internal.IDAdultBlocking, CachePath: cachePath, ReplacementHost: filtertest.HostAdultContentRepl,
			Staleness: 1, CacheTTL: filtertest.CacheTTL, CacheCount: filtertest.CacheCount,
			MaxSize: filtertest.FilterMaxSize,
		})
		require.NoError(t, err)
		return f
	}
	f := mk()
	require.NoError(t, f.RefreshInitial(testutil.ContextWithTimeout(t, filtertest.Timeout)))

	err := f.Refresh(testutil.ContextWithTimeout(t, filtertest.Timeout))
	require.Error(t, err)
	t.Logf("periodic refresh: %v", err)

	b, err := os.ReadFile(cachePath)
	require.NoError(t, err)
	if len(b) > 1000 {
		t.Errorf("the rejected host list (%d bytes) replaced the on-disk copy", len(b))
	}
	if err = mk().RefreshInitial(testutil.ContextWithTimeout(t, filtertest.Timeout)); err != nil {
		t.Errorf("restart fails: %v", err)
	}
}
