package forward_test

import (
	"context"
	"net"
	"net/netip"
	"testing"

	"github.com/AdguardTeam/AdGuardDNS/internal/dnsserver"
	"github.com/AdguardTeam/AdGuardDNS/internal/dnsserver/dnsservertest"
	"github.com/AdguardTeam/AdGuardDNS/internal/dnsserver/forward"
	"github.com/AdguardTeam/golibs/testutil"
	"github.com/miekg/dns"
	"github.com/stretchr/testify/require"
)

// TestF23 shows that a main TCP upstream that accepts connections and closes
// them after reading the query, without answering (the client side sees io.EOF) makes the query fail
// although a healthy fallback is configured.
func TestF23(t *testing.T) {
	// A main upstream that closes every connection at once.
	l, err := net.Listen("tcp", "127.0.0.1:0")
	require.NoError(t, err)
	testutil.CleanupAndRequireSuccess(t, l.Close)

	go func() {
		for {
			conn, accErr := l.Accept()
			if accErr != nil {
				return
			}

			// Read the query and close the connection without answering.
			buf := make([]byte, 1024)
			_, _ = conn.Read(buf)
			_ = conn.Close()
		}
	}()

	// A healthy fallback.
	srv, _ := dnsservertest.RunDNSServer(t, dnsservertest.NewDefaultHandler())

	handler := forward.NewHandler(&forward.HandlerConfig{
		UpstreamsAddresses: []*forward.UpstreamPlainConfig{{
			Network: forward.NetworkTCP,
			Address: netip.MustParseAddrPort(l.Addr().String()),
			Timeout: testTimeout,
		}},
		FallbackAddresses: []*forward.UpstreamPlainConfig{{
			Network: forward.NetworkAny,
			Address: netip.MustParseAddrPort(srv.LocalUDPAddr().String()),
			Timeout: testTimeout,
		}},
	})

	req := dnsservertest.CreateMessage("example.org.", dns.TypeA)
	rw := dnsserver.NewNonWriterResponseWriter(srv.LocalUDPAddr(), srv.LocalUDPAddr())

	err = handler.ServeDNS(context.Background(), rw, req)
	require.NoError(t, err)

	res := rw.Msg()
	require.NotNil(t, res)
	dnsservertest.RequireResponse(t, req, res, 1, dns.RcodeSuccess, false)
}
