package connlimiter

import (
	"log/slog"
	"net"
	"testing"
	"time"

	"github.com/AdguardTeam/AdGuardDNS/internal/dnsserver"
)

type fakeLsnr struct {
	ch chan net.Conn
}

func (l *fakeLsnr) Accept() (net.Conn, error) { c := <-l.ch; return c, nil }
func (l *fakeLsnr) Close() error              { return nil }
func (l *fakeLsnr) Addr() net.Addr            { return &net.TCPAddr{} }

type fakeConn struct{ net.Conn }

func (fakeConn) Close() error         { return nil }
func (fakeConn) RemoteAddr() net.Addr { return &net.TCPAddr{} }

func TestProbeStuckWaiter(t *testing.T) {
	lim, err := New(&Config{Logger: slog.Default(), Stop: 2, Resume: 0})
	if err != nil {
		t.Fatal(err)
	}
	fa, fb := &fakeLsnr{ch: make(chan net.Conn, 10)}, &fakeLsnr{ch: make(chan net.Conn, 10)}
	la := lim.Limit(fa, &dnsserver.ServerInfo{Name: "a", Addr: "a", Proto: dnsserver.ProtoDoT})
	lb := lim.Limit(fb, &dnsserver.ServerInfo{Name: "b", Addr: "b", Proto: dnsserver.ProtoDoT})
	for i := 0; i < 5; i++ {
		fa.ch <- fakeConn{}
		fb.ch <- fakeConn{}
	}
	c1, _ := la.Accept()
	c2, _ := lb.Accept()
	// Both listeners now wait.
	gotA, gotB := make(chan net.Conn, 1), make(chan net.Conn, 1)
	go func() { c, _ := la.Accept(); gotA <- c }()
	time.Sleep(50 * time.Millisecond)
	go func() { c, _ := lb.Accept(); gotB <- c }()
	time.Sleep(50 * time.Millisecond)
	_ = c1.Close()
	time.Sleep(50 * time.Millisecond)
	_ = c2.Close()
	time.Sleep(200 * time.Millisecond)
	l := la.(*limitListener)
	l.counterCond.L.Lock()
	t.Logf("counter: current=%d isAccepting=%v", l.counter.current, l.counter.isAccepting)
	l.counterCond.L.Unlock()
	select {
	case <-gotA:
		t.Log("A accepted")
	default:
		t.Log("A STILL WAITING")
	}
	select {
	case <-gotB:
		t.Log("B accepted")
	default:
		t.Log("B STILL WAITING")
	}
}
