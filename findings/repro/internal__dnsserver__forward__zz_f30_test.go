package forward_test

import (
	"bytes"
	"context"
	"encoding/binary"
	"io"
	"net"
	"net/netip"
	"testing"

	"github.com/AdguardTeam/AdGuardDNS/internal/dnsserver/dnsservertest"
	"github.com/AdguardTeam/AdGuardDNS/internal/dnsserver/forward"
	"github.com/AdguardTeam/golibs/testutil"
	"github.com/miekg/dns"
	"github.com/stretchr/testify/require"
)

// TestF30 shows that the retry that follows a connection reset in the middle
// of a TCP response sends the bytes of that partial response instead of the
// query.
func TestF30(t *testing.T) {
	l, err := net.Listen("tcp", "127.0.0.1:0")
	require.NoError(t, err)
	testutil.CleanupAndRequireSuccess(t, l.Close)

	readQuery := func(conn net.Conn) (q []byte) {
		var length uint16
		if binary.Read(conn, binary.BigEndian, &length) != nil {
			return nil
		}
		q = make([]byte, length)
		if _, rerr := io.ReadFull(conn, q); rerr != nil {
			return nil
		}
		return q
	}

	queries := make(chan []byte, 2)
	go func() {
		for i := 0; ; i++ {
			conn, accErr := l.Accept()
			if accErr != nil {
				return
			}
			q := readQuery(conn)
			queries <- q
			if i == 0 {
				// Announce a 100-byte response, send a part of it and reset.
				part := append([]byte{0, 100}, bytes.Repeat([]byte{0xAA}, 40)...)
				_, _ = conn.Write(part)
				_ = conn.(*net.TCPConn).SetLinger(0)
				_ = conn.Close()
				continue
			}
			m := &dns.Msg{}
			if m.Unpack(q) == nil {
				resp := (&dns.Msg{}).SetReply(m)
				b, _ := resp.Pack()
				_ = binary.Write(conn, binary.BigEndian, uint16(len(b)))
				_, _ = conn.Write(b)
			}
			_ = conn.Close()
		}
	}()

	u := forward.NewUpstreamPlain(&forward.UpstreamPlainConfig{
		Network: forward.NetworkTCP,
		Address: netip.MustParseAddrPort(l.Addr().String()),
		Timeout: testTimeout,
	})
	testutil.CleanupAndRequireSuccess(t, u.Close)

	req := dnsservertest.CreateMessage("example.org.", dns.TypeA)
	resp, _, err := u.Exchange(context.Background(), req)
	first, second := <-queries, <-queries
	t.Logf("first  query on the wire: %x", first)
	t.Logf("second query on the wire: %x", second)
	if !bytes.Equal(first, second) {
		t.Errorf("the retry did not send the query again")
	}
	require.NoError(t, err)
	require.NotNil(t, resp)
}
