package ratelimit_test

import (
	"context"
	"net/netip"
	"testing"
	"time"

	"github.com/AdguardTeam/AdGuardDNS/internal/dnsserver/dnsservertest"
	"github.com/AdguardTeam/AdGuardDNS/internal/dnsserver/ratelimit"
	"github.com/c2h5oh/datasize"
	"github.com/miekg/dns"
	"github.com/stretchr/testify/assert"
	"github.com/stretchr/testify/require"
)

// F67 (C09): the request windows live in a cache whose entries expire one
// backoff period after their last use.  Nothing requires the period to be at
// least as long as the counting interval; with a shorter one a subnet that
// pauses for longer than the period gets a new, empty window although its
// earlier queries are still within the interval.
func TestF67WindowOutlivesShortBackoffPeriod(t *testing.T) {
	const (
		count = 2
		ivl   = 5 * time.Second
	)

	rl := ratelimit.NewBackoff(&ratelimit.BackoffConfig{
		Allowlist:            ratelimit.NewDynamicAllowlist(nil, nil),
		Period:               200 * time.Millisecond,
		Duration:             time.Minute,
		Count:                1000,
		ResponseSizeEstimate: 1 * datasize.KB,
		IPv4Count:            count,
		IPv4Interval:         ivl,
		IPv4SubnetKeyLen:     24,
		IPv6Count:            count,
		IPv6Interval:         ivl,
		IPv6SubnetKeyLen:     48,
	})

	ctx := context.Background()
	req := dnsservertest.NewReq("example.org.", dns.TypeA, dns.ClassINET)
	ip := netip.MustParseAddr("192.0.2.1")

	allowed := 0
	query := func() {
		drop, _, err := rl.IsRateLimited(ctx, req, ip)
		require.NoError(t, err)
		if !drop {
			allowed++
		}
	}

	query()
	query()
	query()

	time.Sleep(500 * time.Millisecond)

	query()
	query()
	query()

	assert.Equal(t, count, allowed, "queries answered within one %s interval", ivl)
}
