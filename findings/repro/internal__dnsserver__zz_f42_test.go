package dnsserver_test

import (
	"context"
	"testing"
	"time"

	"github.com/AdguardTeam/AdGuardDNS/internal/dnsserver"
	"github.com/AdguardTeam/AdGuardDNS/internal/dnsserver/dnsservertest"
	"github.com/ameshkov/dnscrypt/v2"
	"github.com/ameshkov/dnsstamps"
	"github.com/miekg/dns"
	"github.com/stretchr/testify/require"
)

// TestF42 shows that the SERVFAIL which the DNSCrypt server sends when the
// handler has written nothing (a query dropped by the rate limiter, for
// example) is not normalized: a query with an OPT record gets a response
// without one, unlike on every other transport.
func TestF42(t *testing.T) {
	silent := dnsserver.HandlerFunc(func(context.Context, dnsserver.ResponseWriter, *dns.Msg) error { return nil })
	s := dnsservertest.RunDNSCryptServer(t, silent)
	client := &dnscrypt.Client{Timeout: time.Second, Net: "udp", UDPSize: 7000}
	ri, err := client.DialStamp(dnsstamps.ServerStamp{
		ServerAddrStr: s.ServerAddr, ServerPk: s.ResolverPk, ProviderName: s.ProviderName,
		Proto: dnsstamps.StampProtoTypeDNSCrypt,
	})
	require.NoError(t, err)

	req := dnsservertest.CreateMessage("example.org.", dns.TypeA)
	req.SetEdns0(1232, false)
	res, err := client.Exchange(req, ri)
	require.NoError(t, err)
	require.Equal(t, dns.RcodeServerFailure, res.Rcode)

	opt := res.IsEdns0()
	if opt == nil {
		t.Fatalf("the query carried an OPT record, the response has none")
	}
	require.Equal(t, uint16(1232), opt.UDPSize())
}
