package dnsserver_test

import (
	"context"
	"strings"
	"testing"
	"time"

	"github.com/AdguardTeam/AdGuardDNS/internal/dnsserver"
	"github.com/AdguardTeam/AdGuardDNS/internal/dnsserver/dnsservertest"
	"github.com/miekg/dns"
	"github.com/stretchr/testify/assert"
	"github.com/stretchr/testify/require"
)

// F59 (C08/C01): the edns-tcp-keepalive option was added to a TCP response
// after it had been truncated to 65535 bytes, with no room left for it: a
// response within six bytes of the limit could not be packed ("buffer too
// large") and the client got no response at all.
func TestF59KeepAliveLeavesRoom(t *testing.T) {
	const fqdn = "example.org."

	var respLen int
	handler := dnsserver.HandlerFunc(func(
		ctx context.Context,
		rw dnsserver.ResponseWriter,
		req *dns.Msg,
	) (err error) {
		resp := (&dns.Msg{}).SetReply(req)
		resp.Compress = true
		for i := 0; i < 256; i++ {
			resp.Answer = append(resp.Answer, &dns.TXT{
				Hdr: dns.RR_Header{Name: fqdn, Rrtype: dns.TypeTXT, Class: dns.ClassINET, Ttl: 10},
				Txt: []string{strings.Repeat("a", 243)},
			})
		}

		// Shorten the last record until the response, with the OPT record that
		// is going to be added, is 65533 bytes long.
		const optLen = 11
		last := resp.Answer[255].(*dns.TXT)
		for resp.Len()+optLen > 65533 {
			last.Txt[0] = last.Txt[0][1:]
		}

		respLen = resp.Len() + optLen

		return rw.WriteMsg(ctx, req, resp)
	})

	srv, addr := dnsservertest.RunDNSServer(t, handler)
	_ = srv

	req := &dns.Msg{
		MsgHdr:   dns.MsgHdr{Id: dns.Id(), RecursionDesired: true},
		Question: []dns.Question{{Name: fqdn, Qtype: dns.TypeTXT, Qclass: dns.ClassINET}},
	}
	opt := &dns.OPT{Hdr: dns.RR_Header{Name: ".", Rrtype: dns.TypeOPT}}
	opt.SetUDPSize(4096)
	opt.Option = append(opt.Option, &dns.EDNS0_TCP_KEEPALIVE{Code: dns.EDNS0TCPKEEPALIVE})
	req.Extra = append(req.Extra, opt)

	c := &dns.Client{Net: "tcp", Timeout: 2 * time.Second}
	resp, _, err := c.Exchange(req, addr)
	require.Equal(t, 65533, respLen)
	require.NoError(t, err, "the query must be answered")
	require.NotNil(t, resp)

	if resp.Truncated {
		assert.Empty(t, resp.Answer)
	} else {
		assert.Len(t, resp.Answer, 256)
	}
}
