package serviceblock_test

import (
	"context"
	"net/http"
	"testing"

	"github.com/AdguardTeam/AdGuardDNS/internal/agdcache"
	"github.com/AdguardTeam/AdGuardDNS/internal/agdtest"
	"github.com/AdguardTeam/AdGuardDNS/internal/filter"
	"github.com/AdguardTeam/AdGuardDNS/internal/filter/internal"
	"github.com/AdguardTeam/AdGuardDNS/internal/filter/internal/filtertest"
	"github.com/AdguardTeam/AdGuardDNS/internal/filter/internal/refreshable"
	"github.com/AdguardTeam/AdGuardDNS/internal/filter/internal/serviceblock"
	"github.com/AdguardTeam/golibs/logutil/slogutil"
	"github.com/stretchr/testify/assert"
	"github.com/stretchr/testify/require"
)

// F49 (C13): a `null` entry in the blocked-service index was dereferenced:
// the refresh panicked (at start-up the process died, in the periodic refresh
// the recovered panic ended the refresh loop for good) instead of failing with
// an error that keeps the previous services.
func TestF49NullServiceInIndex(t *testing.T) {
	reqCh := make(chan struct{}, 1)
	cachePath, srvURL := filtertest.PrepareRefreshable(
		t,
		reqCh,
		`{"blocked_services":[null]}`,
		http.StatusOK,
	)

	f, err := serviceblock.New(&serviceblock.Config{
		Refreshable: &refreshable.Config{
			Logger:    slogutil.NewDiscardLogger(),
			URL:       srvURL,
			ID:        internal.IDBlockedService,
			CachePath: cachePath,
			Staleness: filtertest.Staleness,
			Timeout:   filtertest.Timeout,
			MaxSize:   filtertest.FilterMaxSize,
		},
		ErrColl: agdtest.NewErrorCollector(),
		Metrics: filter.EmptyMetrics{},
	})
	require.NoError(t, err)

	require.NotPanics(t, func() {
		err = f.Refresh(context.Background(), agdcache.EmptyManager{}, 0, false, false)
	})
	assert.Error(t, err)
}
