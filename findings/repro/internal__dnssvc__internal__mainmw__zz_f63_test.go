package mainmw_test

import (
	"context"
	"testing"
	"time"

	"github.com/AdguardTeam/AdGuardDNS/internal/agdnet"
	"github.com/AdguardTeam/AdGuardDNS/internal/agdtest"
	"github.com/AdguardTeam/AdGuardDNS/internal/dnsserver"
	"github.com/AdguardTeam/AdGuardDNS/internal/dnsserver/dnsservertest"
	"github.com/AdguardTeam/AdGuardDNS/internal/dnssvc/internal/dnssvctest"
	"github.com/AdguardTeam/AdGuardDNS/internal/dnssvc/internal/mainmw"
	"github.com/AdguardTeam/AdGuardDNS/internal/filter"
	"github.com/AdguardTeam/golibs/errors"
	"github.com/AdguardTeam/golibs/logutil/slogutil"
	"github.com/miekg/dns"
	"github.com/stretchr/testify/assert"
	"github.com/stretchr/testify/require"
)

// F63 (C01): a CHAOS-class (debug) query is resolved as class IN by rewriting
// the class of the server's own request message in place.  When the next
// handler fails, the server builds its SERVFAIL from that message, so the
// client that asked "name CH A" was answered with the question "name IN A".
func TestF63DebugRequestClassRestored(t *testing.T) {
	flt := &agdtest.Filter{
		OnFilterRequest: func(_ context.Context, _ *filter.Request) (r filter.Result, err error) {
			return nil, nil
		},
		OnFilterResponse: func(_ context.Context, _ *filter.Response) (r filter.Result, err error) {
			return nil, nil
		},
	}

	mw := mainmw.New(&mainmw.Config{
		Cloner:   agdtest.NewCloner(),
		Logger:   slogutil.NewDiscardLogger(),
		Messages: agdtest.NewConstructor(t),
		BillStat: &agdtest.BillStatRecorder{},
		ErrColl:  agdtest.NewErrorCollector(),
		FilterStorage: &agdtest.FilterStorage{
			OnForConfig: func(_ context.Context, _ filter.Config) (f filter.Interface) { return flt },
			OnHasListID: func(_ filter.ID) (ok bool) { panic("not implemented") },
		},
		GeoIP:    agdtest.NewGeoIP(),
		Metrics:  mainmw.EmptyMetrics{},
		QueryLog: &agdtest.QueryLog{},
		RuleStat: &agdtest.RuleStat{},
	})

	const upsErr errors.Error = "upstream failed"
	var classSeenByNext uint16
	next := dnsserver.HandlerFunc(func(_ context.Context, _ dnsserver.ResponseWriter, req *dns.Msg) (err error) {
		classSeenByNext = req.Question[0].Qclass

		return upsErr
	})

	req := dnsservertest.NewReq(dnssvctest.DomainFQDN, dns.TypeA, dns.ClassCHAOS)
	ctx := newContext(t, nil, nil, agdnet.NormalizeDomain(dnssvctest.DomainFQDN), dns.TypeA, time.Now())
	rw := dnsserver.NewNonWriterResponseWriter(dnssvctest.ServerTCPAddr, dnssvctest.ClientTCPAddr)

	err := mw.Wrap(next).ServeDNS(ctx, rw, req)
	require.ErrorIs(t, err, upsErr)

	// The pipeline resolves the name in class IN ...
	assert.Equal(t, uint16(dns.ClassINET), classSeenByNext)

	// ... but the message the server builds its SERVFAIL from is the client's.
	assert.Equal(t, uint16(dns.ClassCHAOS), req.Question[0].Qclass)

	resp := (&dns.Msg{}).SetRcode(req, dns.RcodeServerFailure)
	assert.Equal(t, uint16(dns.ClassCHAOS), resp.Question[0].Qclass)
}
