package preupstream_test

import (
	"context"
	"testing"

	"github.com/AdguardTeam/AdGuardDNS/internal/agd"
	"github.com/AdguardTeam/AdGuardDNS/internal/dnsdb"
	"github.com/AdguardTeam/AdGuardDNS/internal/dnsserver"
	"github.com/AdguardTeam/AdGuardDNS/internal/dnsserver/dnsservertest"
	"github.com/AdguardTeam/AdGuardDNS/internal/dnssvc/internal/dnssvctest"
	"github.com/AdguardTeam/AdGuardDNS/internal/dnssvc/internal/preupstream"
	"github.com/AdguardTeam/golibs/testutil"
	"github.com/miekg/dns"
	"github.com/stretchr/testify/assert"
	"github.com/stretchr/testify/require"
)

// TestF20 shows that the response code which the rest of the pipeline produced
// for an Android metric-domain query (NXDOMAIN from a blocking profile,
// SERVFAIL from the upstream) reaches the client as NOERROR.
func TestF20(t *testing.T) {
	ctx := testutil.ContextWithTimeout(t, dnssvctest.Timeout)
	mw := preupstream.New(ctx, &preupstream.Config{DB: dnsdb.Empty{}})
	ctx = agd.ContextWithRequestInfo(ctx, &agd.RequestInfo{})

	for _, rcode := range []int{dns.RcodeNameError, dns.RcodeServerFailure, dns.RcodeRefused} {
		next := dnsserver.HandlerFunc(func(ctx context.Context, rw dnsserver.ResponseWriter, req *dns.Msg) (err error) {
			resp := (&dns.Msg{}).SetRcode(req, rcode)

			return rw.WriteMsg(ctx, req, resp)
		})

		req := dnsservertest.CreateMessage("12345678-dnsotls-ds.metric.gstatic.com.", dns.TypeA)
		rw := dnsserver.NewNonWriterResponseWriter(dnssvctest.ServerTCPAddr, dnssvctest.ClientTCPAddr)

		err := mw.Wrap(next).ServeDNS(ctx, rw, req)
		require.NoError(t, err)

		resp := rw.Msg()
		require.NotNil(t, resp)
		assert.Equal(t, dns.RcodeToString[rcode], dns.RcodeToString[resp.Rcode])
		assert.Equal(t, req.Question[0].Name, resp.Question[0].Name)
	}
}
