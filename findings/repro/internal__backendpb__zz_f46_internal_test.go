package backendpb

import (
	"net/netip"
	"testing"

	"github.com/AdguardTeam/AdGuardDNS/internal/agdtest"
	"github.com/AdguardTeam/AdGuardDNS/internal/dnsmsg"
	"github.com/AdguardTeam/AdGuardDNS/internal/dnsserver/dnsservertest"
	"github.com/miekg/dns"
	"github.com/stretchr/testify/require"
)

// TestF46 shows that a custom blocking mode whose "ipv4" field holds an IPv6
// address is accepted by the decoder; the message constructor then fails to
// build the blocked answer for A questions, and the main middleware falls back
// to the upstream's answer for a query that was blocked.
func TestF46(t *testing.T) {
	v6 := netip.MustParseAddr("2001:db8::1").As16()
	pbm := &BlockingModeCustomIP{Ipv4: v6[:]}

	m, err := pbm.toInternal()
	if err != nil {
		t.Logf("rejected: %v", err)

		return
	}

	c, err := dnsmsg.NewConstructor(&dnsmsg.ConstructorConfig{
		Cloner:              agdtest.NewCloner(),
		BlockingMode:        m,
		StructuredErrors:    agdtest.NewSDEConfig(false),
		FilteredResponseTTL: agdtest.FilteredResponseTTL,
	})
	require.NoError(t, err)

	req := dnsservertest.NewReq("blocked.example.", dns.TypeA, dns.ClassINET)
	_, err = c.NewBlockedResp(req)
	if err != nil {
		t.Errorf("the decoder accepted %v as a custom IPv4 address, and the blocked answer cannot be built: %v", m, err)
	}
}
