package cmd

import (
	"testing"

	"github.com/stretchr/testify/assert"
	"github.com/stretchr/testify/require"
)

// F62 (C20): ratelimit.connection_limit.resume is documented as "must be
// greater than zero" (connLimitConfig and connlimiter.Config), but an enabled
// limit with resume 0 was accepted.  The active-connection count includes every
// listener that waits in Accept, so with resume 0 a limiter that has stopped
// only resumes once every listening socket, however rarely used, has received
// and finished a connection.
func TestF62ConnLimitResumeZero(t *testing.T) {
	c := &connLimitConfig{Enabled: true, Stop: 1000, Resume: 0}

	err := c.validate()
	require.Error(t, err)
	assert.Contains(t, err.Error(), "resume")

	// A disabled limit is not checked, as before.
	require.NoError(t, (&connLimitConfig{Enabled: false}).validate())
	require.NoError(t, (&connLimitConfig{Enabled: true, Stop: 1000, Resume: 800}).validate())
}
