package websvc

import (
	"bufio"
	"io"
	"net"
	"net/http"
	"net/http/httptest"
	"net/url"
	"strings"
	"testing"
	"time"

	"github.com/AdguardTeam/AdGuardDNS/internal/agdtest"
	"github.com/stretchr/testify/assert"
	"github.com/stretchr/testify/require"
)

// F57 (C19): the linked-IP proxy passed the client's Upgrade header on; with a
// backend that answers 101, httputil.ReverseProxy then copies the connection's
// bytes both ways unseen, so any method, any path and a forged X-Connecting-IP
// reach the backend.
func TestF57NoProtocolSwitchThroughProxy(t *testing.T) {
	smuggled := make(chan string, 1)

	// A backend that agrees to switch protocols and then reports what it reads
	// from the raw connection.
	backend := httptest.NewServer(http.HandlerFunc(func(w http.ResponseWriter, r *http.Request) {
		if r.Header.Get("Upgrade") == "" {
			w.WriteHeader(http.StatusOK)

			return
		}

		hj, ok := w.(http.Hijacker)
		require.True(t, ok)

		conn, brw, err := hj.Hijack()
		require.NoError(t, err)
		defer func() { _ = conn.Close() }()

		_, _ = brw.WriteString("HTTP/1.1 101 Switching Protocols\r\nConnection: Upgrade\r\nUpgrade: test\r\n\r\n")
		_ = brw.Flush()

		_ = conn.SetReadDeadline(time.Now().Add(1 * time.Second))
		line, _ := brw.ReadString('\n')
		smuggled <- line
	}))
	defer backend.Close()

	apiURL, err := url.Parse(backend.URL)
	require.NoError(t, err)

	h := linkedIPHandler(apiURL, agdtest.NewErrorCollector(), "test", 2*time.Second)
	proxy := httptest.NewServer(h)
	defer proxy.Close()

	conn, err := net.Dial("tcp", strings.TrimPrefix(proxy.URL, "http://"))
	require.NoError(t, err)
	defer func() { _ = conn.Close() }()

	_, err = io.WriteString(conn, "GET /linkip/dev1234/token HTTP/1.1\r\nHost: x\r\nConnection: Upgrade\r\nUpgrade: test\r\n\r\n")
	require.NoError(t, err)

	_ = conn.SetReadDeadline(time.Now().Add(2 * time.Second))
	resp, err := http.ReadResponse(bufio.NewReader(conn), nil)
	require.NoError(t, err)
	_ = resp.Body.Close()

	assert.NotEqual(t, http.StatusSwitchingProtocols, resp.StatusCode, "the proxy must not relay a protocol switch")

	// Whatever the status was, nothing written on the client connection now may
	// reach the backend verbatim.
	_, _ = io.WriteString(conn, "POST /admin/anything HTTP/1.1\r\n")

	select {
	case line := <-smuggled:
		assert.NotContains(t, line, "/admin/anything")
	case <-time.After(1500 * time.Millisecond):
		// Nothing reached the backend.
	}
}
