package ratelimit_test

import (
	"context"
	"net/netip"
	"testing"
	"time"

	"github.com/AdguardTeam/AdGuardDNS/internal/dnsserver/dnsservertest"
	"github.com/AdguardTeam/AdGuardDNS/internal/dnsserver/ratelimit"
	"github.com/c2h5oh/datasize"
	"github.com/miekg/dns"
	"github.com/stretchr/testify/assert"
	"github.com/stretchr/testify/require"
)

// F55 (C09): the sliding window of a subnet lives in a cache whose entries
// expire a fixed time (the backoff period) after they were created, whether or
// not the subnet is active; the next query then starts with an empty window,
// and more than the configured number of queries is let through within one
// interval.
func TestF55WindowSurvivesWhileTheSubnetIsActive(t *testing.T) {
	const (
		count = 2
		ivl   = 1 * time.Second
	)

	rl := ratelimit.NewBackoff(&ratelimit.BackoffConfig{
		Allowlist:            ratelimit.NewDynamicAllowlist(nil, nil),
		Period:               1200 * time.Millisecond,
		Duration:             time.Minute,
		Count:                1000,
		ResponseSizeEstimate: 1 * datasize.KB,
		IPv4Count:            count,
		IPv4Interval:         ivl,
		IPv4SubnetKeyLen:     24,
		IPv6Count:            count,
		IPv6Interval:         ivl,
		IPv6SubnetKeyLen:     48,
	})

	ctx := context.Background()
	req := dnsservertest.NewReq("example.org.", dns.TypeA, dns.ClassINET)
	ip := netip.MustParseAddr("192.0.2.1")

	allowedAt := []time.Time{}
	query := func() {
		drop, _, err := rl.IsRateLimited(ctx, req, ip)
		require.NoError(t, err)
		if !drop {
			allowedAt = append(allowedAt, time.Now())
		}
	}

	start := time.Now()
	query() // t = 0: the window of the subnet is created

	time.Sleep(time.Until(start.Add(1100 * time.Millisecond)))
	query() // t = 1.1 s: allowed, the first query is older than the interval
	query() // allowed
	query() // dropped: two queries within the last second

	time.Sleep(time.Until(start.Add(1300 * time.Millisecond)))
	query() // t = 1.3 s: two queries within the last second, so dropped
	query()

	// No interval-long span contains more than count allowed queries.
	for i := range allowedAt {
		n := 0
		for _, at := range allowedAt[i:] {
			if at.Sub(allowedAt[i]) < ivl {
				n++
			}
		}

		assert.LessOrEqualf(t, n, count, "%d queries allowed within one interval starting at +%s", n, allowedAt[i].Sub(start))
	}
}
