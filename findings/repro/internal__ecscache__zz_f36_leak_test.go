package ecscache_test

import (
	"context"
	"net"
	"net/netip"
	"testing"

	"github.com/AdguardTeam/AdGuardDNS/internal/agd"
	"github.com/AdguardTeam/AdGuardDNS/internal/dnsmsg"
	"github.com/AdguardTeam/AdGuardDNS/internal/dnsserver"
	"github.com/AdguardTeam/AdGuardDNS/internal/dnsserver/dnsservertest"
	"github.com/AdguardTeam/AdGuardDNS/internal/geoip"
	"github.com/miekg/dns"
	"github.com/stretchr/testify/require"
)

// TestF36 shows that a query with two OPT records, the first of which carries
// the client's own subnet, is forwarded with that subnet: only the last OPT
// record is looked at when the client's option is read and replaced.
func TestF36(t *testing.T) {
	clientNet := net.IPv4(203, 0, 113, 0)
	req := dnsservertest.NewReq(reqHostname, dns.TypeA, dns.ClassINET)
	req.Extra = []dns.RR{
		&dns.OPT{
			Hdr: dns.RR_Header{Name: ".", Rrtype: dns.TypeOPT, Class: 4096},
			Option: []dns.EDNS0{&dns.EDNS0_SUBNET{
				Code: dns.EDNS0SUBNET, Family: 1, SourceNetmask: 24, Address: clientNet,
			}},
		},
		&dns.OPT{Hdr: dns.RR_Header{Name: ".", Rrtype: dns.TypeOPT, Class: 4096}},
	}

	// What the rate-limiting middleware computes: only the last OPT is read.
	ecs, _, err := dnsmsg.ECSFromMsg(req)
	require.NoError(t, err)
	require.Equal(t, netip.Prefix{}, ecs)

	var forwarded *dns.Msg
	h := dnsserver.HandlerFunc(func(ctx context.Context, rw dnsserver.ResponseWriter, r *dns.Msg) (err error) {
		forwarded = r.Copy()
		resp := dnsservertest.NewResp(dns.RcodeSuccess, r, dnsservertest.SectionAnswer{
			dnsservertest.NewA(reqHostname, defaultTTL, netip.MustParseAddr("1.2.3.4")),
		})

		return rw.WriteMsg(ctx, r, resp)
	})
	withCache := newWithCache(t, h, geoip.CountryUS, netip.MustParsePrefix("192.0.2.0/24"), 0, false)
	ri := &agd.RequestInfo{
		Location: &geoip.Location{Country: geoip.CountryUS},
		ECS:      nil,
		Host:     "example.com",
		RemoteIP: remoteIP,
	}
	_ = exchange(t, ri, withCache, req)

	require.NotNil(t, forwarded)
	for _, rr := range forwarded.Extra {
		opt, ok := rr.(*dns.OPT)
		if !ok {
			continue
		}
		for _, o := range opt.Option {
			if sn, ok := o.(*dns.EDNS0_SUBNET); ok {
				t.Logf("forwarded: %s", sn)
				if sn.Address.Equal(clientNet) {
					t.Errorf("the subnet the client supplied is sent upstream: %s", sn)
				}
			}
		}
	}
}
