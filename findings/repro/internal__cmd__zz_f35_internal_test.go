package cmd

import (
	"testing"
	"time"

	"github.com/AdguardTeam/golibs/timeutil"
	"github.com/stretchr/testify/require"
)

// TestF35 shows that backend.timeout: 0s, which validation accepts and the
// documentation describes as "no timeout", gives every profile refresh and
// billing upload a context that is already expired.
func TestF35(t *testing.T) {
	sec := timeutil.Duration{Duration: time.Second}
	c := &backendConfig{
		Timeout:             timeutil.Duration{Duration: 0},
		RefreshIvl:          sec,
		FullRefreshIvl:      sec,
		FullRefreshRetryIvl: sec,
		BillStatIvl:         sec,
	}
	require.NoError(t, c.validate())

	// What builder.initBillStat and builder.initProfileDB give their workers.
	ctx, cancel := newCtxWithTimeoutCons(c.Timeout.Duration)()
	defer cancel()

	time.Sleep(10 * time.Millisecond)
	if err := ctx.Err(); err != nil {
		t.Errorf("the context of a refresh with timeout 0s (no timeout): %v", err)
	}
}
