package hashprefix_test

import (
	"context"
	"net/http"
	"testing"
	"time"

	"github.com/AdguardTeam/AdGuardDNS/internal/agdcache"
	"github.com/AdguardTeam/AdGuardDNS/internal/agdtest"
	"github.com/AdguardTeam/AdGuardDNS/internal/dnsmsg"
	"github.com/AdguardTeam/AdGuardDNS/internal/filter"
	"github.com/AdguardTeam/AdGuardDNS/internal/filter/hashprefix"
	"github.com/AdguardTeam/AdGuardDNS/internal/filter/internal"
	"github.com/AdguardTeam/AdGuardDNS/internal/filter/internal/filtertest"
	"github.com/AdguardTeam/golibs/logutil/slogutil"
	"github.com/AdguardTeam/golibs/testutil"
	"github.com/miekg/dns"
	"github.com/stretchr/testify/require"
)

// F31: the result cache of a hash-prefix filter with an IP replacement is
// shared by all requesters, but the cached message was built by the first
// requester's constructor (blocking mode, TTL).
func TestF31_CacheServesOtherProfilesShape(t *testing.T) {
	cachePath, srvURL := filtertest.PrepareRefreshable(t, nil, filtertest.HostAdultContent+"\n", http.StatusOK)
	strg, err := hashprefix.NewStorage("")
	require.NoError(t, err)
	f, err := hashprefix.NewFilter(&hashprefix.FilterConfig{
		Logger: slogutil.NewDiscardLogger(), Cloner: agdtest.NewCloner(),
		CacheManager: agdcache.EmptyManager{}, Hashes: strg, URL: srvURL,
		ErrColl: agdtest.NewErrorCollector(), Metrics: filter.EmptyMetrics{},
		ID: internal.IDAdultBlocking, CachePath: cachePath,
		ReplacementHost: "192.0.2.1",
		Staleness:       filtertest.Staleness, CacheTTL: filtertest.CacheTTL, CacheCount: filtertest.CacheCount,
		MaxSize: filtertest.FilterMaxSize,
	})
	require.NoError(t, err)
	require.NoError(t, f.RefreshInitial(testutil.ContextWithTimeout(t, filtertest.Timeout)))

	mk := func(mode dnsmsg.BlockingMode, ttl time.Duration, qt uint16) *internal.Request {
		req := filtertest.NewRequest(t, "", filtertest.HostAdultContent, filtertest.IPv4Client, qt)
		req.Messages, err = dnsmsg.NewConstructor(&dnsmsg.ConstructorConfig{
			Cloner: agdtest.NewCloner(), BlockingMode: mode,
			StructuredErrors:    &dnsmsg.StructuredDNSErrorsConfig{Enabled: false},
			FilteredResponseTTL: ttl,
		})
		require.NoError(t, err)
		return req
	}
	ctx := context.Background()

	// Profile 1: NXDOMAIN mode, TTL 10 s.  Profile 2: null-IP mode, TTL 300 s.
	for _, qt := range []uint16{dns.TypeHTTPS, dns.TypeA} {
		r1, ferr := f.FilterRequest(ctx, mk(&dnsmsg.BlockingModeNXDOMAIN{}, 10*time.Second, qt))
		require.NoError(t, ferr)
		r2, ferr := f.FilterRequest(ctx, mk(&dnsmsg.BlockingModeNullIP{}, 300*time.Second, qt))
		require.NoError(t, ferr)
		m1 := r1.(*internal.ResultModifiedResponse).Msg
		m2 := r2.(*internal.ResultModifiedResponse).Msg
		t.Logf("%s first : rcode=%d %v %v", dns.Type(qt), m1.Rcode, m1.Answer, m1.Ns)
		t.Logf("%s second: rcode=%d %v %v", dns.Type(qt), m2.Rcode, m2.Answer, m2.Ns)
		if qt == dns.TypeHTTPS && m2.Rcode != dns.RcodeSuccess {
			t.Errorf("HTTPS: the null-IP requester got rcode %d (the first requester's NXDOMAIN shape)", m2.Rcode)
		}
		for _, rr := range append(m2.Answer, m2.Ns...) {
			if rr.Header().Ttl != 300 {
				t.Errorf("%s: the second requester's TTL is %d, want 300", dns.Type(qt), rr.Header().Ttl)
			}
		}
	}
}
