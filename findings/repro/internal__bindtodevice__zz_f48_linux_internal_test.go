//go:build linux

package bindtodevice

import (
	"net"
	"testing"
	"time"

	"github.com/AdguardTeam/AdGuardDNS/internal/connlimiter"
	"github.com/AdguardTeam/AdGuardDNS/internal/dnsserver"
	"github.com/AdguardTeam/golibs/logutil/slogutil"
	"github.com/AdguardTeam/golibs/testutil/fakenet"
	"github.com/stretchr/testify/require"
)

// F48 (C18): limitListener.Close called the wrapped listener's Close while it
// held the mutex shared by every listener of the limiter.  With a
// bind-to-device channel listener whose channel is full (its send holds the
// listener's own mutex), that Close never returned and nothing using the
// limiter moved again: connections could not give their slots back.
func TestF48LimiterCloseDoesNotHoldSharedMutex(t *testing.T) {
	lim, err := connlimiter.New(&connlimiter.Config{Logger: slogutil.NewDiscardLogger(), Stop: 1, Resume: 1})
	require.NoError(t, err)

	newConn := func() net.Conn {
		return &fakenet.Conn{
			OnClose:      func() (err error) { return nil },
			OnRemoteAddr: func() (addr net.Addr) { return testRAddr },
		}
	}

	conns := make(chan net.Conn, 1)
	cl := newChanListener(conns, testSubnetIPv4, testLAddr)
	limited := lim.Limit(cl, &dnsserver.ServerInfo{Name: "obs", Addr: "a", Proto: dnsserver.ProtoDNS})

	require.True(t, cl.send(newConn()))
	c1, err := limited.Accept() // limiter is at stop now
	require.NoError(t, err)

	go func() { _, _ = limited.Accept() }() // the accept loop waits for a slot
	time.Sleep(100 * time.Millisecond)

	require.True(t, cl.send(newConn())) // fills the channel
	go func() { cl.send(newConn()) }()  // blocks holding cl.mu
	time.Sleep(100 * time.Millisecond)

	go func() { _ = limited.Close() }()
	time.Sleep(100 * time.Millisecond)

	connClosed := make(chan struct{})
	go func() { _ = c1.Close(); close(connClosed) }()

	select {
	case <-connClosed:
	case <-time.After(time.Second):
		t.Error("closing an accepted connection (limiter decrement) hangs")
	}
}
