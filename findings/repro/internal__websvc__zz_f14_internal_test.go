package websvc

import (
	"net/http"
	"net/http/httptest"
	"net/url"
	"testing"
	"time"

	"github.com/AdguardTeam/AdGuardDNS/internal/agdtest"
	"github.com/stretchr/testify/assert"
	"github.com/stretchr/testify/require"
)

// TestF14 shows that a client can make the proxy drop the client-IP header.
func TestF14(t *testing.T) {
	var got http.Header
	backend := httptest.NewServer(http.HandlerFunc(func(w http.ResponseWriter, r *http.Request) {
		got = r.Header.Clone()
		w.WriteHeader(http.StatusOK)
	}))
	t.Cleanup(backend.Close)

	u, err := url.Parse(backend.URL)
	require.NoError(t, err)

	h := linkedIPHandler(u, agdtest.NewErrorCollector(), "test", 1*time.Second)

	for _, tc := range []struct {
		name string
		conn string
	}{{name: "plain", conn: ""}, {name: "connection_header", conn: "X-Connecting-Ip"}} {
		t.Run(tc.name, func(t *testing.T) {
			got = nil
			r := httptest.NewRequest(http.MethodGet, "/linkip/dev1234/0123456789abcdef", nil)
			r.RemoteAddr = "192.0.2.55:12345"
			if tc.conn != "" {
				r.Header.Set("Connection", tc.conn)
			}
			w := httptest.NewRecorder()
			h.ServeHTTP(w, r)
			require.Equal(t, http.StatusOK, w.Code)
			require.NotNil(t, got)
			assert.Equal(t, "192.0.2.55", got.Get("X-Connecting-Ip"))
		})
	}
}
