package websvc

import "testing"

func TestProbeShouldProxy(t *testing.T) {
	for _, c := range [][2]string{{"GET", "/linkip/../status"}, {"POST", "/ddns/../../x"}, {"GET", "/linkip/a/b"}, {"GET", "/linkip/a/../status"}, {"POST", "/linkip/./.."}} {
		t.Logf("%s %s -> %v", c[0], c[1], shouldProxy(c[0], c[1]))
	}
}
