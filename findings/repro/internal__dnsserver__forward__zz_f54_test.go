package forward_test

import (
	"context"
	"net"
	"net/netip"
	"sync/atomic"
	"testing"
	"time"

	"github.com/AdguardTeam/AdGuardDNS/internal/dnsserver"
	"github.com/AdguardTeam/AdGuardDNS/internal/dnsserver/dnsservertest"
	"github.com/AdguardTeam/AdGuardDNS/internal/dnsserver/forward"
	"github.com/AdguardTeam/golibs/logutil/slogutil"
	"github.com/miekg/dns"
	"github.com/stretchr/testify/assert"
	"github.com/stretchr/testify/require"
)

// F54 (C17): the health check probes the main upstreams one after another
// under one context.  A silent upstream uses the whole deadline up, and the
// upstreams probed after it fail at once without a packet being sent: a
// healthy main upstream is marked down although it would have answered.
func TestF54SilentUpstreamDoesNotFailTheOthers(t *testing.T) {
	// A main upstream that never answers.
	silent, err := net.ListenUDP("udp", &net.UDPAddr{IP: net.IP{127, 0, 0, 1}})
	require.NoError(t, err)
	t.Cleanup(func() { _ = silent.Close() })

	var healthyProbes atomic.Int64
	defaultHandler := dnsservertest.NewDefaultHandler()
	healthyHandler := dnsserver.HandlerFunc(func(
		ctx context.Context,
		rw dnsserver.ResponseWriter,
		req *dns.Msg,
	) (err error) {
		healthyProbes.Add(1)

		return defaultHandler.ServeDNS(ctx, rw, req)
	})

	healthy, _ := dnsservertest.RunDNSServer(t, healthyHandler)
	fallback, _ := dnsservertest.RunDNSServer(t, defaultHandler)

	handler := forward.NewHandler(&forward.HandlerConfig{
		Logger: slogutil.NewDiscardLogger(),
		UpstreamsAddresses: []*forward.UpstreamPlainConfig{{
			Network: forward.NetworkAny,
			Address: netip.MustParseAddrPort(silent.LocalAddr().String()),
			Timeout: 1 * time.Second,
		}, {
			Network: forward.NetworkAny,
			Address: netip.MustParseAddrPort(healthy.LocalUDPAddr().String()),
			Timeout: 1 * time.Second,
		}},
		HealthcheckDomainTmpl: "${RANDOM}.upstream-check.example",
		FallbackAddresses: []*forward.UpstreamPlainConfig{{
			Network: forward.NetworkAny,
			Address: netip.MustParseAddrPort(fallback.LocalUDPAddr().String()),
			Timeout: 1 * time.Second,
		}},
		HealthcheckBackoffDuration: 0,
	})

	// The deadline of the round is not longer than the timeout of the silent
	// upstream, as in the sample configuration (1s against 2s).
	ctx, cancel := context.WithTimeout(context.Background(), 300*time.Millisecond)
	defer cancel()

	err = handler.Refresh(ctx)
	assert.NoError(t, err, "one main upstream is healthy, so not all of them are down")
	assert.Positive(t, healthyProbes.Load(), "the healthy upstream must have been probed")
}
