package profiledb_test

import (
	"context"
	"path/filepath"
	"testing"
	"time"

	"github.com/AdguardTeam/AdGuardDNS/internal/agd"
	"github.com/AdguardTeam/AdGuardDNS/internal/agdtest"
	"github.com/AdguardTeam/AdGuardDNS/internal/profiledb"
	"github.com/AdguardTeam/AdGuardDNS/internal/profiledb/internal"
	"github.com/AdguardTeam/AdGuardDNS/internal/profiledb/internal/filecachepb"
	"github.com/AdguardTeam/AdGuardDNS/internal/profiledb/internal/profiledbtest"
	"github.com/AdguardTeam/golibs/logutil/slogutil"
	"github.com/AdguardTeam/golibs/testutil"
	"github.com/stretchr/testify/assert"
	"github.com/stretchr/testify/require"
)

// F58 (C14): a file cache with profiles but without devices (accounts that use
// automatically created devices only) was treated as empty: after a restart the
// profile was unknown (ErrProfileNotFound) where the database that wrote the
// cache knew it (ErrDeviceNotFound for an unknown human ID).
func TestF58CacheWithoutDevicesIsLoaded(t *testing.T) {
	ps := &agdtest.ProfileStorage{
		OnCreateAutoDevice: func(
			_ context.Context,
			_ *profiledb.StorageCreateAutoDeviceRequest,
		) (resp *profiledb.StorageCreateAutoDeviceResponse, err error) {
			panic("not implemented")
		},
		OnProfiles: func(
			_ context.Context,
			_ *profiledb.StorageProfilesRequest,
		) (resp *profiledb.StorageProfilesResponse, err error) {
			// The backend is down.
			return nil, assert.AnError
		},
	}

	prof, _ := profiledbtest.NewProfile(t)
	prof.DeviceIDs = nil
	prof.AutoDevicesEnabled = true

	cacheFilePath := filepath.Join(t.TempDir(), "profiles.pb")
	logger := slogutil.NewDiscardLogger()
	pbCache := filecachepb.New(logger, cacheFilePath, profiledbtest.RespSzEst)

	ctx := testutil.ContextWithTimeout(t, 1*time.Second)
	err := pbCache.Store(ctx, &internal.FileCache{
		SyncTime: time.Now().Round(0).UTC(),
		Profiles: []*agd.Profile{prof},
		Devices:  nil,
		Version:  internal.FileCacheVersion,
	})
	require.NoError(t, err)

	db, err := profiledb.New(&profiledb.Config{
		Logger:               logger,
		Storage:              ps,
		ErrColl:              agdtest.NewErrorCollector(),
		Metrics:              profiledb.EmptyMetrics{},
		CacheFilePath:        cacheFilePath,
		FullSyncIvl:          1 * time.Minute,
		FullSyncRetryIvl:     1 * time.Minute,
		ResponseSizeEstimate: profiledbtest.RespSzEst,
	})
	require.NoError(t, err)

	_, _, err = db.ProfileByHumanID(context.Background(), prof.ID, "some-device")
	assert.ErrorIs(t, err, profiledb.ErrDeviceNotFound, "the profile of the cache is known, only the device is not")
}
