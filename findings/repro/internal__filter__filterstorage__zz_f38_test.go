package filterstorage_test

import (
	"context"
	"encoding/json"
	"net/http"
	"os"
	"path/filepath"
	"testing"

	"github.com/AdguardTeam/AdGuardDNS/internal/agdtest"
	"github.com/AdguardTeam/AdGuardDNS/internal/filter/filterstorage"
	"github.com/AdguardTeam/AdGuardDNS/internal/filter/internal/filtertest"
	"github.com/AdguardTeam/golibs/testutil"
	"github.com/stretchr/testify/require"
)

// TestF38 shows that a rule-list index entry whose key is the name of another
// component's cache file ("services.json") is accepted, and that the rule list
// is then written over that component's copy on disk.
func TestF38(t *testing.T) {
	_, ruleListURL := filtertest.PrepareRefreshable(t, nil, filtertest.RuleBlockStr+"\n", http.StatusOK)
	idx, err := json.Marshal(map[string]any{"filters": []map[string]any{{
		"filterKey":   "services.json",
		"downloadUrl": ruleListURL.String(),
	}, {
		"filterKey":   string(filtertest.RuleListID1),
		"downloadUrl": ruleListURL.String(),
	}}})
	require.NoError(t, err)

	_, idxURL := filtertest.PrepareRefreshable(t, nil, string(idx), http.StatusOK)
	_, svcIdxURL := filtertest.PrepareRefreshable(t, nil, filtertest.BlockedServiceIndex, http.StatusOK)

	c := newDisabledConfig(t, newConfigRuleLists(idxURL))
	c.BlockedServices = newConfigBlockedServices(svcIdxURL)
	c.ErrColl = &agdtest.ErrorCollector{OnCollect: func(_ context.Context, err error) { t.Logf("collected: %v", err) }}
	s, err := filterstorage.New(c)
	require.NoError(t, err)

	err = s.RefreshInitial(testutil.ContextWithTimeout(t, filtertest.Timeout))
	if err != nil {
		t.Errorf("initial refresh: %v", err)
	}

	b, err := os.ReadFile(filepath.Join(c.CacheDir, "services.json"))
	require.NoError(t, err)
	if !json.Valid(b) {
		t.Errorf("services.json holds a rule list: %q", b)
	}
	require.True(t, s.HasListID(filtertest.RuleListID1))
}
