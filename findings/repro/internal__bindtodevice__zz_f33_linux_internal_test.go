//go:build linux

package bindtodevice

import (
	"net"
	"testing"

	"github.com/AdguardTeam/golibs/syncutil"
	"github.com/prometheus/client_golang/prometheus"
	"github.com/stretchr/testify/require"
)

// F33: a write that fails is followed by the server's SERVFAIL on the same
// session; every write request returns the session's read buffer to the pool,
// so the pool holds it twice and the next two datagrams share one buffer.
func TestF33_ReadBufferPutTwice(t *testing.T) {
	l := &interfaceListener{
		bodyPool:          syncutil.NewSlicePool[byte](512),
		writeDurationHist: prometheus.NewHistogram(prometheus.HistogramOpts{Name: "f33"}),
	}
	c, err := net.ListenUDP("udp", &net.UDPAddr{IP: net.IPv4(127, 0, 0, 1)})
	require.NoError(t, err)
	defer func() { _ = c.Close() }()

	// What readUDP does for an incoming datagram.
	bodyPtr := l.bodyPool.Get()
	sess := &packetSession{
		laddr:    c.LocalAddr().(*net.UDPAddr),
		raddr:    &net.UDPAddr{IP: net.IPv4(127, 0, 0, 1), Port: 0}, // sendmsg fails
		readBody: (*bodyPtr)[:12],
	}

	// The handler's response cannot be written ...
	resp := &packetConnWriteResp{}
	l.writeToUDPConn(c, &packetConnWriteReq{session: sess, body: []byte("response")}, resp)
	require.Error(t, resp.err)
	t.Logf("first write: %v", resp.err)

	// ... so serveDNSMsgInternal writes a SERVFAIL to the same session.
	resp = &packetConnWriteResp{}
	l.writeToUDPConn(c, &packetConnWriteReq{session: sess, body: []byte("servfail")}, resp)

	// The next two datagrams.
	b1, b2 := *l.bodyPool.Get(), *l.bodyPool.Get()
	b1, b2 = b1[:cap(b1)], b2[:cap(b2)]
	if &b1[0] == &b2[0] {
		t.Errorf("two datagrams are read into the same buffer")
	}
}
