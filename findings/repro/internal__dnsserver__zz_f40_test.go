package dnsserver_test

import (
	"context"
	"net"
	"sync/atomic"
	"testing"

	"github.com/AdguardTeam/AdGuardDNS/internal/dnsserver"
	"github.com/AdguardTeam/AdGuardDNS/internal/dnsserver/dnsservertest"
	"github.com/miekg/dns"
	"github.com/stretchr/testify/require"
)

// TestF40 shows that a query with an OPT record in its answer (or authority)
// section reaches the handlers.  They look for the client's EDNS options in the
// additional section only, so a client-subnet option in such a record is
// neither validated nor replaced and is forwarded upstream as it is.
func TestF40(t *testing.T) {
	for _, sec := range []string{"answer", "authority"} {
		t.Run(sec, func(t *testing.T) {
			var seen atomic.Pointer[dns.Msg]
			h := dnsserver.HandlerFunc(func(ctx context.Context, rw dnsserver.ResponseWriter, r *dns.Msg) (err error) {
				seen.Store(r.Copy())

				return dnsservertest.NewDefaultHandler().ServeDNS(ctx, rw, r)
			})
			_, addr := dnsservertest.RunDNSServer(t, h)

			opt := &dns.OPT{
				Hdr: dns.RR_Header{Name: ".", Rrtype: dns.TypeOPT, Class: 4096},
				Option: []dns.EDNS0{&dns.EDNS0_SUBNET{
					Code: dns.EDNS0SUBNET, Family: 1, SourceNetmask: 32, Address: net.IPv4(203, 0, 113, 77),
				}},
			}
			req := dnsservertest.CreateMessage("example.org.", dns.TypeA)
			if sec == "answer" {
				req.Answer = []dns.RR{opt}
			} else {
				req.Ns = []dns.RR{opt}
			}

			c := &dns.Client{Net: "udp"}
			resp, _, err := c.Exchange(req, addr)
			require.NoError(t, err)

			if m := seen.Load(); m != nil {
				t.Errorf("the handler got a query with an OPT record in its %s section: %v %v", sec, m.Answer, m.Ns)
			}
			require.Equal(t, dns.RcodeFormatError, resp.Rcode)
		})
	}
}
