package cache

import (
	"testing"
	"time"

	"github.com/miekg/dns"
)

func TestProbeTTL(t *testing.T) {
	m := NewMiddleware(&MiddlewareConfig{Count: 10})
	req := new(dns.Msg)
	req.SetQuestion("example.org.", dns.TypeA)
	resp := new(dns.Msg)
	resp.SetReply(req)
	rr, _ := dns.NewRR("example.org. 10 IN A 1.2.3.4")
	resp.Answer = append(resp.Answer, rr)
	for _, age := range []time.Duration{0, 5 * time.Second, 9400 * time.Millisecond, 9600 * time.Millisecond, 9900 * time.Millisecond} {
		item := cacheItem{msg: resp, when: time.Now().Add(-age)}
		out := m.fromCacheItem(item, req)
		t.Logf("age=%v ttl=%d", age, out.Answer[0].Header().Ttl)
	}
}
