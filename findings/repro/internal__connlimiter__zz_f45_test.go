package connlimiter_test

import (
	"crypto/tls"
	"context"
	"net"
	"sync"
	"sync/atomic"
	"testing"
	"time"

	"github.com/AdguardTeam/AdGuardDNS/internal/agd"
	"github.com/AdguardTeam/AdGuardDNS/internal/connlimiter"
	"github.com/AdguardTeam/AdGuardDNS/internal/dnsserver"
	"github.com/AdguardTeam/golibs/logutil/slogutil"
	"github.com/stretchr/testify/assert"
	"github.com/stretchr/testify/require"
)

// lateListener is a [net.Listener] that emulates a connection that the kernel
// hands over at the very moment the listener is being closed:  the blocked
// Accept call returns one established connection shortly after Close has been
// called and fails with [net.ErrClosed] afterwards.
type lateListener struct {
	closed    chan struct{}
	closeOnce sync.Once
	delay     time.Duration

	mu    sync.Mutex
	conns []net.Conn
}

// Accept implements the [net.Listener] interface for *lateListener.
func (l *lateListener) Accept() (c net.Conn, err error) {
	<-l.closed

	l.mu.Lock()
	defer l.mu.Unlock()

	if len(l.conns) == 0 {
		return nil, net.ErrClosed
	}

	time.Sleep(l.delay)

	c, l.conns = l.conns[0], l.conns[1:]

	return c, nil
}

// Close implements the [net.Listener] interface for *lateListener.
func (l *lateListener) Close() (err error) {
	l.closeOnce.Do(func() { close(l.closed) })

	return nil
}

// Addr implements the [net.Listener] interface for *lateListener.
func (l *lateListener) Addr() (addr net.Addr) {
	return &net.TCPAddr{IP: net.IPv4(127, 0, 0, 1), Port: 53}
}

// trackedConn is a [net.Conn] that records whether it has been closed.
type trackedConn struct {
	net.Conn

	closed atomic.Bool
}

// Close implements the [net.Conn] interface for *trackedConn.
func (c *trackedConn) Close() (err error) {
	c.closed.Store(true)

	return c.Conn.Close()
}

// readyListener is a [net.Listener] that always has a connection to return.
type readyListener struct{}

// Accept implements the [net.Listener] interface for readyListener.
func (readyListener) Accept() (c net.Conn, err error) {
	srv, _ := net.Pipe()

	return srv, nil
}

// Close implements the [net.Listener] interface for readyListener.
func (readyListener) Close() (err error) { return nil }

// Addr implements the [net.Listener] interface for readyListener.
func (readyListener) Addr() (addr net.Addr) {
	return &net.TCPAddr{IP: net.IPv4(127, 0, 0, 1), Port: 853}
}

// fixedListenConfig is a [netext.ListenConfig] that returns the given listener.
type fixedListenConfig struct {
	l net.Listener
}

// Listen implements the [netext.ListenConfig] interface for *fixedListenConfig.
func (c *fixedListenConfig) Listen(
	_ context.Context,
	_ string,
	_ string,
) (l net.Listener, err error) {
	return c.l, nil
}

// ListenPacket implements the [netext.ListenConfig] interface for
// *fixedListenConfig.
func (c *fixedListenConfig) ListenPacket(
	_ context.Context,
	_ string,
	_ string,
) (conn net.PacketConn, err error) {
	panic("not implemented")
}

// TestObsTLS checks that a connection that is
// accepted while the plain-DNS server is shutting down gives its slot back to
// the limiter that the server shares with other listeners.
func TestF45(t *testing.T) {
	lim, err := connlimiter.New(&connlimiter.Config{
		Logger: slogutil.NewDiscardLogger(),
		Stop:   1,
		Resume: 1,
	})
	require.NoError(t, err)

	srvSide, clientSide := net.Pipe()
	t.Cleanup(func() { _ = clientSide.Close() })

	conn := &trackedConn{Conn: srvSide}
	lsnr := &lateListener{
		closed: make(chan struct{}),
		delay:  100 * time.Millisecond,
		conns:  []net.Conn{conn},
	}

	srv := dnsserver.NewServerTLS(dnsserver.ConfigTLS{TLSConfig: &tls.Config{}, ConfigDNS: dnsserver.ConfigDNS{
		ConfigBase: dnsserver.ConfigBase{
			Name:         "test_dns",
			Addr:         "127.0.0.1:53",
			Network:      dnsserver.NetworkTCP,
			ListenConfig: connlimiter.NewListenConfig(&fixedListenConfig{l: lsnr}, lim),
		},
	}})

	ctx := context.Background()
	require.NoError(t, srv.Start(ctx))

	// Let the accept loop take the only slot as a pending accept.
	time.Sleep(100 * time.Millisecond)

	shutCtx, cancel := context.WithTimeout(ctx, 5*time.Second)
	defer cancel()

	require.NoError(t, srv.Shutdown(shutCtx))

	// The server is down, so the connection it has accepted on its way down
	// must get closed and must give the slot back.
	require.Eventually(t, conn.closed.Load, 2*time.Second, 10*time.Millisecond)

	other := lim.Limit(readyListener{}, &dnsserver.ServerInfo{
		Name:  "test_dot",
		Addr:  "127.0.0.1:853",
		Proto: agd.ProtoDoT,
	})

	accepted := make(chan net.Conn, 1)
	go func() {
		c, accErr := other.Accept()
		if accErr == nil {
			accepted <- c
		}
	}()

	select {
	case c := <-accepted:
		assert.NoError(t, c.Close())
	case <-time.After(2 * time.Second):
		t.Fatal("the slot of the connection accepted during shutdown is never released")
	}
}
