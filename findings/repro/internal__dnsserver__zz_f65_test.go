package dnsserver_test

import (
	"strings"
	"testing"
	"time"

	"github.com/AdguardTeam/AdGuardDNS/internal/dnsserver/dnsservertest"
	"github.com/miekg/dns"
	"github.com/stretchr/testify/assert"
	"github.com/stretchr/testify/require"
)

// F65 (C01, known finding): the plain-DNS server reads UDP datagrams into
// 512-byte buffers (ConfigDNS.UDPSize is not set by dnssvc.NewListener and
// defaults to dns.MinMsgSize), so a well-formed single-question query that is
// longer than 512 bytes on the wire is cut by the read, fails to unpack and is
// dropped without a response.  The same query is answered over TCP.
func TestF65LargeQueryOverUDP(t *testing.T) {
	_, addr := dnsservertest.RunDNSServer(t, dnsservertest.NewDefaultHandler())

	req := (&dns.Msg{}).SetQuestion("example.org.", dns.TypeA)
	req.SetEdns0(4096, false)
	opt := req.IsEdns0()
	opt.Option = append(opt.Option, &dns.EDNS0_LOCAL{
		Code: dns.EDNS0LOCALSTART,
		Data: []byte(strings.Repeat("x", 600)),
	})
	require.Greater(t, req.Len(), dns.MinMsgSize)

	for _, network := range []string{"tcp", "udp"} {
		t.Run(network, func(t *testing.T) {
			c := &dns.Client{Net: network, Timeout: 1 * time.Second, UDPSize: 4096}
			resp, _, err := c.Exchange(req, addr)
			require.NoError(t, err)
			assert.Equal(t, req.Id, resp.Id)
			assert.Equal(t, dns.RcodeSuccess, resp.Rcode)
		})
	}
}
