package filecachepb_test

import (
	"path/filepath"
	"testing"
	"time"

	"github.com/AdguardTeam/AdGuardDNS/internal/agd"
	"github.com/AdguardTeam/AdGuardDNS/internal/agdpasswd"
	"github.com/AdguardTeam/AdGuardDNS/internal/profiledb/internal"
	"github.com/AdguardTeam/AdGuardDNS/internal/profiledb/internal/filecachepb"
	"github.com/AdguardTeam/AdGuardDNS/internal/profiledb/internal/profiledbtest"
	"github.com/AdguardTeam/golibs/logutil/slogutil"
	"github.com/AdguardTeam/golibs/testutil"
	"github.com/stretchr/testify/assert"
	"github.com/stretchr/testify/require"
)

// TestF16 shows that a device with authentication enabled and no password
// (what the backend codec turns into AllowAuthenticator) comes back from the
// file cache with a nil authenticator, on which the device finder then calls
// Authenticate.
func TestF16(t *testing.T) {
	prof, dev := profiledbtest.NewProfile(t)
	dev.Auth = &agd.AuthSettings{
		Enabled:      true,
		DoHAuthOnly:  true,
		PasswordHash: agdpasswd.AllowAuthenticator{},
	}

	cachePath := filepath.Join(t.TempDir(), "profiles.pb")
	s := filecachepb.New(slogutil.NewDiscardLogger(), cachePath, profiledbtest.RespSzEst)

	fc := &internal.FileCache{
		SyncTime: time.Now().Round(0).UTC(),
		Profiles: []*agd.Profile{prof},
		Devices:  []*agd.Device{dev},
		Version:  internal.FileCacheVersion,
	}

	ctx := testutil.ContextWithTimeout(t, testTimeout)
	require.NoError(t, s.Store(ctx, fc))

	gotFC, err := s.Load(ctx)
	require.NoError(t, err)
	require.Len(t, gotFC.Devices, 1)

	got := gotFC.Devices[0].Auth
	require.NotNil(t, got)
	assert.True(t, got.Enabled)

	// What devicefinder.authenticate does for a DoH request that carries a
	// password.
	require.NotNil(t, got.PasswordHash, "the restored device has no authenticator")
	assert.NotPanics(t, func() { _ = got.PasswordHash.Authenticate(ctx, []byte("any")) })
	assert.Equal(t, dev.Auth, got)
}
