package profiledb

import (
	"context"
	"log/slog"
	"net/netip"
	"testing"
	"time"

	"github.com/AdguardTeam/AdGuardDNS/internal/agd"
)

type fakeStorage struct {
	resps []*StorageProfilesResponse
}

func (s *fakeStorage) CreateAutoDevice(context.Context, *StorageCreateAutoDeviceRequest) (*StorageCreateAutoDeviceResponse, error) {
	panic("x")
}

func (s *fakeStorage) Profiles(_ context.Context, _ *StorageProfilesRequest) (*StorageProfilesResponse, error) {
	r := s.resps[0]
	s.resps = s.resps[1:]
	return r, nil
}

type noColl struct{}

func (noColl) Collect(context.Context, error) {}

func TestProbeCleanupRace(t *testing.T) {
	ipX := netip.MustParseAddr("1.2.3.4")
	ipY := netip.MustParseAddr("5.6.7.8")
	prof := func(devs ...agd.DeviceID) *agd.Profile {
		return &agd.Profile{ID: "prof1234", DeviceIDs: devs}
	}
	st := &fakeStorage{resps: []*StorageProfilesResponse{{
		SyncTime: time.Now(),
		Profiles: []*agd.Profile{prof("dev1", "dev2")},
		Devices:  []*agd.Device{{ID: "dev1", LinkedIP: ipX}, {ID: "dev2"}},
	}, {
		// Partial sync: dev1 moves to ipY.
		SyncTime: time.Now(),
		Profiles: []*agd.Profile{prof("dev1", "dev2")},
		Devices:  []*agd.Device{{ID: "dev1", LinkedIP: ipY}, {ID: "dev2"}},
	}, {
		// Partial sync: dev2 takes ipX.
		SyncTime: time.Now(),
		Profiles: []*agd.Profile{prof("dev1", "dev2")},
		Devices:  []*agd.Device{{ID: "dev1", LinkedIP: ipY}, {ID: "dev2", LinkedIP: ipX}},
	}}}
	db, err := New(&Config{
		Logger: slog.Default(), Storage: st, ErrColl: noColl{}, Metrics: EmptyMetrics{},
		CacheFilePath: "none", FullSyncIvl: time.Hour, FullSyncRetryIvl: time.Hour,
	})
	if err != nil {
		t.Fatal(err)
	}
	ctx := context.Background()
	if err = db.Refresh(ctx); err != nil {
		t.Fatal(err)
	}
	_, d, err := db.ProfileByLinkedIP(ctx, ipX)
	t.Logf("step1 lookup X: dev=%v err=%v", d.ID, err)
	if err = db.Refresh(ctx); err != nil {
		t.Fatal(err)
	}
	// Hold the read lock so that the clean-up goroutine spawned by the lookup
	// stays pending, exactly as it would under an unlucky schedule.
	db.mapsMu.RLock()
	unlock := make(chan struct{})
	go func() { <-unlock; db.mapsMu.RUnlock() }()
	_, _, err = db.ProfileByLinkedIP(ctx, ipX)
	t.Logf("step2 lookup X after dev1 moved: err=%v (clean-up now pending)", err)
	// The next sync overtakes the pending clean-up... but it needs the write
	// lock, so emulate the order sync-then-cleanup by releasing and syncing
	// first, then letting goroutines run.
	close(unlock)
	if err = db.Refresh(ctx); err != nil {
		t.Fatal(err)
	}
	time.Sleep(200 * time.Millisecond)
	_, d2, err := db.ProfileByLinkedIP(ctx, ipX)
	if err != nil {
		t.Logf("step3 lookup X after dev2 took X: NOT FOUND err=%v", err)
	} else {
		t.Logf("step3 lookup X after dev2 took X: dev=%v", d2.ID)
	}
	// Deterministic variant: run the clean-up body after the sync.
	db.removeLinkedIP(ctx, ipX)
	_, _, err = db.ProfileByLinkedIP(ctx, ipX)
	t.Logf("step4 after late clean-up: err=%v", err)
}
