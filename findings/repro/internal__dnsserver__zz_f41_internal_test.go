package dnsserver

import (
	"net"
	"testing"

	"github.com/miekg/dns"
	"github.com/stretchr/testify/require"
)

// TestF41 shows that a response that fits into 65535 bytes, and is therefore
// not truncated, can be padded beyond 65535 bytes: padding is added after
// truncation and is not bounded by the room that is left.  DoT and DoQ then fail
// to pack the message (the client gets nothing); DoH, whose writer has no length
// check, sends a body longer than any DNS message may be.
func TestF41(t *testing.T) {
	req := (&dns.Msg{}).SetQuestion("example.org.", dns.TypeA)
	req.Extra = []dns.RR{&dns.OPT{
		Hdr:    dns.RR_Header{Name: ".", Rrtype: dns.TypeOPT, Class: 4096},
		Option: []dns.EDNS0{&dns.EDNS0_PADDING{Padding: make([]byte, 8)}},
	}}

	over := 0
	for i := 0; i < 20; i++ {
		resp := (&dns.Msg{}).SetReply(req)
		for j := 0; j < 4093; j++ {
			resp.Answer = append(resp.Answer, &dns.A{
				Hdr: dns.RR_Header{Name: "example.org.", Rrtype: dns.TypeA, Class: dns.ClassINET, Ttl: 60},
				A:   net.IPv4(192, 0, 2, byte(j)),
			})
		}

		normalize(NetworkTCP, ProtoDoH, req, resp, dns.MaxMsgSize)

		b, err := resp.Pack()
		require.NoError(t, err)
		if len(b) > dns.MaxMsgSize {
			over++
			t.Logf("try %d: packed length %d", i, len(b))
		}
	}

	if over > 0 {
		t.Errorf("%d of 20 padded responses are longer than 65535 bytes", over)
	}
}
