package dnsmsg_test

import (
	"strings"
	"testing"

	"github.com/AdguardTeam/AdGuardDNS/internal/agdtest"
	"github.com/miekg/dns"
	"github.com/stretchr/testify/assert"
	"github.com/stretchr/testify/require"
)

// TestF22 builds the blocked response for the longest valid question names and
// checks that a client can decode what the server would send.
func TestF22(t *testing.T) {
	msgs := agdtest.NewConstructor(t)

	label := strings.Repeat("a", 61)
	for _, n := range []int{240, 244, 245, 250, 253} {
		// n is the length of the name in presentation format, with the final dot.
		name := label + "." + label + "." + label + "."
		name += strings.Repeat("b", n-len(name)-len("example.")-1) + ".example."
		require.Len(t, name, n)
		_, ok := dns.IsDomainName(name)
		require.True(t, ok)

		req := (&dns.Msg{}).SetQuestion(name, dns.TypeTXT)
		resp, err := msgs.NewBlockedResp(req)
		require.NoError(t, err)

		b, err := resp.Pack()
		if !assert.NoError(t, err, "packing the blocked response for a name of %d octets", n) {
			continue
		}

		got := &dns.Msg{}
		assert.NoError(t, got.Unpack(b), "decoding the blocked response for a name of %d octets", n)
	}
}
