package dnsserver_test

import (
	"encoding/json"
	"testing"

	"github.com/AdguardTeam/AdGuardDNS/internal/dnsserver"
	"github.com/miekg/dns"
	"github.com/stretchr/testify/assert"
	"github.com/stretchr/testify/require"
)

// F69 (C01): the JSON encoding of a DoH response (the format of Google's JSON
// API, which has an "Authority" field) was built from the question, answer and
// additional sections only: the authority section of the response, e.g. the
// SOA record of an NXDOMAIN or of a blocked answer, was dropped, while the wire
// encodings of the same response carry it.
func TestF69JSONAuthority(t *testing.T) {
	m := (&dns.Msg{}).SetQuestion("nx.example.", dns.TypeA)
	m.Response = true
	m.Rcode = dns.RcodeNameError
	m.Ns = []dns.RR{&dns.SOA{
		Hdr:     dns.RR_Header{Name: "example.", Rrtype: dns.TypeSOA, Class: dns.ClassINET, Ttl: 300},
		Ns:      "ns.example.",
		Mbox:    "hostmaster.example.",
		Serial:  1,
		Refresh: 2,
		Retry:   3,
		Expire:  4,
		Minttl:  5,
	}}

	b, err := json.Marshal(dnsserver.DNSMsgToJSONMsg(m))
	require.NoError(t, err)

	var got struct {
		Authority []struct {
			Name string `json:"name"`
			Data string `json:"data"`
			TTL  uint32 `json:"TTL"`
			Type uint16 `json:"type"`
		} `json:"Authority"`
	}
	require.NoError(t, json.Unmarshal(b, &got))
	require.Len(t, got.Authority, 1, "json: %s", b)

	a := got.Authority[0]
	assert.Equal(t, "example.", a.Name)
	assert.Equal(t, dns.TypeSOA, a.Type)
	assert.Equal(t, uint32(300), a.TTL)
	assert.Equal(t, "ns.example. hostmaster.example. 1 2 3 4 5", a.Data)
}
