package dnsserver_test

import (
	"context"
	"strings"
	"testing"
	"time"

	"github.com/AdguardTeam/AdGuardDNS/internal/dnsserver"
	"github.com/AdguardTeam/AdGuardDNS/internal/dnsserver/dnsservertest"
	"github.com/ameshkov/dnscrypt/v2"
	"github.com/ameshkov/dnsstamps"
	"github.com/miekg/dns"
	"github.com/stretchr/testify/assert"
	"github.com/stretchr/testify/require"
)

// F52 (C08): over DNSCrypt/TCP the response was normalised to 65535 bytes, but
// the dnscrypt module reserves 64 bytes for its header and truncates to 65471
// itself, keeping the answers that still fit: a response of 65472..65535
// bytes arrived with TC set and a partial answer section.
func TestF52DNSCryptTCPTruncationKeepsNoAnswers(t *testing.T) {
	const fqdn = "example.org."

	// 256 TXT records of 242 or 243 bytes of text make a response of about 65500
	// bytes.
	handler := dnsserver.HandlerFunc(func(
		ctx context.Context,
		rw dnsserver.ResponseWriter,
		req *dns.Msg,
	) (err error) {
		resp := (&dns.Msg{}).SetReply(req)
		for i := 0; i < 256; i++ {
			resp.Answer = append(resp.Answer, &dns.TXT{
				Hdr: dns.RR_Header{Name: fqdn, Rrtype: dns.TypeTXT, Class: dns.ClassINET, Ttl: 10},
				Txt: []string{strings.Repeat("a", 242+min(1, i/56))},
			})
		}

		resp.Compress = true
		l := resp.Len()
		if l <= dns.MaxMsgSize-64 || l > dns.MaxMsgSize {
			panic("test response has the wrong size")
		}

		return rw.WriteMsg(ctx, req, resp)
	})

	s := dnsservertest.RunDNSCryptServer(t, handler)
	client := &dnscrypt.Client{Timeout: 1 * time.Second, Net: "tcp"}
	stamp := dnsstamps.ServerStamp{
		ServerAddrStr: s.ServerAddr,
		ServerPk:      s.ResolverPk,
		ProviderName:  s.ProviderName,
		Proto:         dnsstamps.StampProtoTypeDNSCrypt,
	}

	ri, err := client.DialStamp(stamp)
	require.NoError(t, err)

	req := &dns.Msg{
		MsgHdr:   dns.MsgHdr{Id: dns.Id(), RecursionDesired: true},
		Question: []dns.Question{{Name: fqdn, Qtype: dns.TypeTXT, Qclass: dns.ClassINET}},
	}

	res, err := client.Exchange(req, ri)
	require.NoError(t, err)
	require.NotNil(t, res)

	if res.Truncated {
		assert.Empty(t, res.Answer, "records were dropped (TC is set), so the answer section must be empty")
	} else {
		assert.Len(t, res.Answer, 256)
	}
}
