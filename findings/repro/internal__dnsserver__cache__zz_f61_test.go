package cache_test

import (
	"context"
	"net"
	"net/netip"
	"testing"

	"github.com/AdguardTeam/AdGuardDNS/internal/dnsserver"
	"github.com/AdguardTeam/AdGuardDNS/internal/dnsserver/cache"
	"github.com/AdguardTeam/AdGuardDNS/internal/dnsserver/dnsservertest"
	"github.com/miekg/dns"
	"github.com/stretchr/testify/assert"
	"github.com/stretchr/testify/require"
)

// F61 (C04): the simple cache computed the key of a stored answer from the
// response (its OPT record) and the key of a lookup from the request.  With an
// upstream that does not put an OPT record into its response, the answer to a
// DO=1 query (with its RRSIG) was filed under the DO=0 key and served to
// clients that did not set the DO bit.
func TestF61CacheKeyFromRequest(t *testing.T) {
	const host = "signed.example"

	numUps := 0
	upstream := dnsserver.HandlerFunc(func(
		ctx context.Context,
		rw dnsserver.ResponseWriter,
		req *dns.Msg,
	) (err error) {
		numUps++

		resp := (&dns.Msg{}).SetReply(req)
		resp.Answer = append(resp.Answer, dnsservertest.NewA(host, 300, netip.MustParseAddr("192.0.2.1")))
		if opt := req.IsEdns0(); opt != nil && opt.Do() {
			resp.Answer = append(resp.Answer, &dns.RRSIG{
				Hdr:         dns.RR_Header{Name: dns.Fqdn(host), Rrtype: dns.TypeRRSIG, Class: dns.ClassINET, Ttl: 300},
				TypeCovered: dns.TypeA,
				SignerName:  dns.Fqdn(host),
				Signature:   "c2ln",
			})
		}

		// The upstream does not echo the OPT record.
		return rw.WriteMsg(ctx, req, resp)
	})

	mw := cache.NewMiddleware(&cache.MiddlewareConfig{Count: 100})
	h := mw.Wrap(upstream)

	exchange := func(do bool) (resp *dns.Msg) {
		req := dnsservertest.NewReq(host, dns.TypeA, dns.ClassINET)
		if do {
			req.SetEdns0(4096, true)
		}

		addr := &net.UDPAddr{IP: net.IP{127, 0, 0, 1}, Port: 53}
		nrw := dnsserver.NewNonWriterResponseWriter(addr, addr)
		require.NoError(t, h.ServeDNS(context.Background(), nrw, req))
		require.NotNil(t, nrw.Msg())

		return nrw.Msg()
	}

	hasSig := func(resp *dns.Msg) (ok bool) {
		for _, rr := range resp.Answer {
			if _, ok = rr.(*dns.RRSIG); ok {
				return true
			}
		}

		return false
	}

	require.True(t, hasSig(exchange(true)))

	resp := exchange(false)
	assert.False(t, hasSig(resp), "a client without the DO bit was served the answer cached for a DO=1 query")
}
