package composite_test

import (
	"net/netip"
	"testing"

	"github.com/AdguardTeam/AdGuardDNS/internal/agdtest"
	"github.com/AdguardTeam/AdGuardDNS/internal/dnsserver/dnsservertest"
	"github.com/AdguardTeam/AdGuardDNS/internal/filter/internal"
	"github.com/AdguardTeam/AdGuardDNS/internal/filter/internal/composite"
	"github.com/AdguardTeam/AdGuardDNS/internal/filter/internal/filtertest"
	"github.com/AdguardTeam/AdGuardDNS/internal/filter/internal/rulelist"
	"github.com/miekg/dns"
	"github.com/stretchr/testify/require"
)

// F32: a blocked CNAME target is only matched when the upstream spells it in
// lower case.
func TestF32_CNAMETargetCase(t *testing.T) {
	const reqFQDN = "sub.other.example."
	rl := newFromStr(t, filtertest.RuleBlockStr+"\n", filtertest.RuleListID1)
	f := composite.New(&composite.Config{RuleLists: []*rulelist.Refreshable{rl}})
	const ttl = agdtest.FilteredResponseTTLSec

	for _, target := range []string{filtertest.FQDNBlocked, "BLocked.Example."} {
		ctx, req := newReqData(t)
		req.DNS.Question[0].Name = reqFQDN
		res, err := f.FilterResponse(ctx, &internal.Response{
			DNS: dnsservertest.NewResp(dns.RcodeSuccess, req.DNS, dnsservertest.SectionAnswer{
				dnsservertest.NewCNAME(reqFQDN, ttl, target),
				dnsservertest.NewA(target, ttl, netip.MustParseAddr("1.2.3.4")),
			}),
			RemoteIP: filtertest.IPv4Client,
		})
		require.NoError(t, err)
		t.Logf("target %q: %T", target, res)
		if _, ok := res.(*internal.ResultBlocked); !ok {
			t.Errorf("CNAME target %q is not blocked by rule %q", target, filtertest.RuleBlockStr)
		}
	}
}
