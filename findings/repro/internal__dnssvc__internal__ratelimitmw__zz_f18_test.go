package ratelimitmw_test

import (
	"context"
	"net"
	"net/netip"
	"testing"
	"time"

	"github.com/AdguardTeam/AdGuardDNS/internal/access"
	"github.com/AdguardTeam/AdGuardDNS/internal/agd"
	"github.com/AdguardTeam/AdGuardDNS/internal/agdtest"
	"github.com/AdguardTeam/AdGuardDNS/internal/dnsserver"
	"github.com/AdguardTeam/AdGuardDNS/internal/dnsserver/dnsservertest"
	"github.com/AdguardTeam/AdGuardDNS/internal/dnssvc/internal/ratelimitmw"
	"github.com/AdguardTeam/AdGuardDNS/internal/geoip"
	"github.com/AdguardTeam/golibs/logutil/slogutil"
	"github.com/AdguardTeam/golibs/testutil"
	"github.com/miekg/dns"
	"github.com/stretchr/testify/assert"
	"github.com/stretchr/testify/require"
)

// TestF18 sends one query with a malformed EDNS Client Subnet option (address
// bits beyond the prefix length) to a real plain-DNS server in front of the
// rate-limit/access middleware and counts the datagrams that come back.
func TestF18(t *testing.T) {
	accessMgr, err := access.NewGlobal(nil, nil)
	require.NoError(t, err)

	geoIP := agdtest.NewGeoIP()
	geoIP.OnData = func(_ string, _ netip.Addr) (l *geoip.Location, err error) { return nil, nil }

	mw := ratelimitmw.New(&ratelimitmw.Config{
		Logger:           slogutil.NewDiscardLogger(),
		Messages:         agdtest.NewConstructor(t),
		FilteringGroup:   &agd.FilteringGroup{},
		ServerGroup:      &agd.ServerGroup{},
		Server:           &agd.Server{Protocol: agd.ProtoDoT},
		StructuredErrors: agdtest.NewSDEConfig(true),
		AccessManager:    accessMgr,
		DeviceFinder: &agdtest.DeviceFinder{
			OnFind: func(_ context.Context, _ *dns.Msg, _, _ netip.AddrPort) (r agd.DeviceResult) { return nil },
		},
		ErrColl:    agdtest.NewErrorCollector(),
		GeoIP:      geoIP,
		Metrics:    ratelimitmw.EmptyMetrics{},
		Limiter:    agdtest.NewRateLimit(),
		Protocols:  []agd.Protocol{agd.ProtoDNS},
		EDEEnabled: true,
	})

	srv := dnsserver.NewServerDNS(dnsserver.ConfigDNS{
		ConfigBase: dnsserver.ConfigBase{
			Name:    "test",
			Addr:    "127.0.0.1:0",
			Handler: mw.Wrap(dnsservertest.NewDefaultHandler()),
		},
	})
	require.NoError(t, srv.Start(context.Background()))
	testutil.CleanupAndRequireSuccess(t, func() (err error) { return srv.Shutdown(context.Background()) })

	req := dnsservertest.CreateMessage("example.org.", dns.TypeA)
	req.SetEdns0(1232, false)
	opt := req.IsEdns0()
	opt.Option = append(opt.Option, &dns.EDNS0_SUBNET{
		Code:          dns.EDNS0SUBNET,
		Family:        1,
		SourceNetmask: 20,
		// Bits beyond the prefix are set: malformed per RFC 7871.
		Address: net.IP{1, 2, 0, 0},
	})

	b, err := req.Pack()
	require.NoError(t, err)

	// The library masks the address when packing, so set a bit beyond the
	// prefix in the last byte of the option (the last byte of the message) by
	// hand.
	b[len(b)-1] = 0x03

	conn, err := net.Dial("udp", srv.LocalUDPAddr().String())
	require.NoError(t, err)
	testutil.CleanupAndRequireSuccess(t, conn.Close)

	_, err = conn.Write(b)
	require.NoError(t, err)

	var rcodes []int
	buf := make([]byte, 4096)
	for {
		_ = conn.SetReadDeadline(time.Now().Add(300 * time.Millisecond))
		n, rerr := conn.Read(buf)
		if rerr != nil {
			break
		}

		resp := &dns.Msg{}
		require.NoError(t, resp.Unpack(buf[:n]))
		assert.Equal(t, req.Id, resp.Id)
		rcodes = append(rcodes, resp.Rcode)
	}

	assert.Equal(t, []int{dns.RcodeFormatError}, rcodes, "responses to one query")
}
