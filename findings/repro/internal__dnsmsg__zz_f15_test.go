package dnsmsg_test

import (
	"net"
	"testing"

	"github.com/AdguardTeam/AdGuardDNS/internal/dnsmsg"
	"github.com/miekg/dns"
	"github.com/stretchr/testify/assert"
	"github.com/stretchr/testify/require"
)

// TestF15 shows that disposing of an upstream (miekg-unpacked) HTTPS answer
// with five IPv4 hints puts overlapping arrays into the cloner's IP pool, so
// that two later clones share memory.
func TestF15(t *testing.T) {
	// An upstream answer as it comes off the wire.
	up := &dns.Msg{}
	up.SetQuestion("many-hints.example.", dns.TypeHTTPS)
	up.Response = true
	up.Answer = []dns.RR{&dns.HTTPS{SVCB: dns.SVCB{
		Hdr:      dns.RR_Header{Name: "many-hints.example.", Rrtype: dns.TypeHTTPS, Class: dns.ClassINET, Ttl: 60},
		Priority: 1,
		Target:   ".",
		Value: []dns.SVCBKeyValue{&dns.SVCBIPv4Hint{Hint: []net.IP{
			net.IP{192, 0, 2, 1}, net.IP{192, 0, 2, 2}, net.IP{192, 0, 2, 3}, net.IP{192, 0, 2, 4}, net.IP{192, 0, 2, 5},
		}}},
	}}}
	b, err := up.Pack()
	require.NoError(t, err)

	wire := &dns.Msg{}
	require.NoError(t, wire.Unpack(b))

	c := dnsmsg.NewCloner(dnsmsg.EmptyClonerStat{})

	// The server writes the upstream answer to the client and disposes of it.
	c.Dispose(wire)

	// Two later answers for two other clients, cloned from the cache.
	mk := func(name string, ip net.IP) (m *dns.Msg) {
		m = &dns.Msg{}
		m.SetQuestion(name, dns.TypeHTTPS)
		m.Response = true
		m.Answer = []dns.RR{&dns.HTTPS{SVCB: dns.SVCB{
			Hdr:      dns.RR_Header{Name: name, Rrtype: dns.TypeHTTPS, Class: dns.ClassINET, Ttl: 60},
			Priority: 1,
			Target:   ".",
			Value:    []dns.SVCBKeyValue{&dns.SVCBIPv6Hint{Hint: []net.IP{ip}}},
		}}}

		return m
	}

	ipA := net.ParseIP("2001:db8:a::a")
	ipB := net.ParseIP("2001:db8:b::b")

	cloneA := c.Clone(mk("a.example.", ipA))
	cloneB := c.Clone(mk("b.example.", ipB))

	gotA := cloneA.Answer[0].(*dns.HTTPS).Value[0].(*dns.SVCBIPv6Hint).Hint[0]
	gotB := cloneB.Answer[0].(*dns.HTTPS).Value[0].(*dns.SVCBIPv6Hint).Hint[0]

	assert.Equal(t, ipA.String(), gotA.String(), "client A's hint")
	assert.Equal(t, ipB.String(), gotB.String(), "client B's hint")
}
