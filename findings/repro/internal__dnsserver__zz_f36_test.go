package dnsserver_test

import (
	"context"
	"net"
	"sync/atomic"
	"testing"

	"github.com/AdguardTeam/AdGuardDNS/internal/dnsserver"
	"github.com/AdguardTeam/AdGuardDNS/internal/dnsserver/dnsservertest"
	"github.com/miekg/dns"
	"github.com/stretchr/testify/require"
)

// TestF36 shows that a query with two OPT records reaches the handlers.  The
// handlers read and replace the client's EDNS options (client subnet) in the
// last OPT record only, so the first one goes upstream as the client sent it
// (see zz_f36_test.go of package ecscache).  RFC 6891, section 6.1.1, requires
// FORMERR.
func TestF36(t *testing.T) {
	var seen atomic.Pointer[dns.Msg]
	h := dnsserver.HandlerFunc(func(ctx context.Context, rw dnsserver.ResponseWriter, r *dns.Msg) (err error) {
		seen.Store(r.Copy())

		return dnsservertest.NewDefaultHandler().ServeDNS(ctx, rw, r)
	})
	_, addr := dnsservertest.RunDNSServer(t, h)

	req := dnsservertest.CreateMessage("example.org.", dns.TypeA)
	req.Extra = []dns.RR{
		&dns.OPT{
			Hdr: dns.RR_Header{Name: ".", Rrtype: dns.TypeOPT, Class: 4096},
			Option: []dns.EDNS0{&dns.EDNS0_SUBNET{
				Code: dns.EDNS0SUBNET, Family: 1, SourceNetmask: 24, Address: net.IPv4(203, 0, 113, 0),
			}},
		},
		&dns.OPT{Hdr: dns.RR_Header{Name: ".", Rrtype: dns.TypeOPT, Class: 4096}},
	}

	c := &dns.Client{Net: "udp"}
	resp, _, err := c.Exchange(req, addr)
	require.NoError(t, err)

	if m := seen.Load(); m != nil {
		t.Errorf("the handler got a query with %d OPT records: %v", len(m.Extra), m.Extra)
	}
	require.Equal(t, dns.RcodeFormatError, resp.Rcode)
}
