package ratelimitmw_test

import (
	"context"
	"net"
	"net/netip"
	"testing"

	"github.com/AdguardTeam/AdGuardDNS/internal/access"
	"github.com/AdguardTeam/AdGuardDNS/internal/agd"
	"github.com/AdguardTeam/AdGuardDNS/internal/agdtest"
	"github.com/AdguardTeam/AdGuardDNS/internal/dnsmsg"
	"github.com/AdguardTeam/AdGuardDNS/internal/dnsserver"
	"github.com/AdguardTeam/AdGuardDNS/internal/dnsserver/dnsservertest"
	"github.com/AdguardTeam/AdGuardDNS/internal/dnssvc/internal/dnssvctest"
	"github.com/AdguardTeam/AdGuardDNS/internal/dnssvc/internal/ratelimitmw"
	"github.com/AdguardTeam/AdGuardDNS/internal/geoip"
	"github.com/AdguardTeam/golibs/logutil/slogutil"
	"github.com/AdguardTeam/golibs/testutil"
	"github.com/miekg/dns"
	"github.com/stretchr/testify/assert"
	"github.com/stretchr/testify/require"
)

// F50 (C10): the global blocked-name rules were asked about ri.Host, which is
// the empty string for the root domain, and urlfilter matches nothing for an
// empty name: `. NS` and `. ANY` passed rules that block them (the profile's
// rules are asked about ".").
func TestF50GlobalAccessRoot(t *testing.T) {
	globalAccess, err := access.NewGlobal([]string{
		// Block the queries for the root domain, which are often used for
		// amplification, as well as all ANY queries.
		`|.^`,
		`*$dnstype=ANY`,
	}, nil)
	require.NoError(t, err)

	prof := &agd.Profile{
		Access: access.EmptyProfile{},
		BlockingMode: &dnsmsg.BlockingModeNullIP{},
		Ratelimiter:  agd.GlobalRatelimiter{},
		ID:           dnssvctest.ProfileID,
		DeviceIDs:    []agd.DeviceID{dnssvctest.DeviceID},
	}

	dev := &agd.Device{
		Auth: &agd.AuthSettings{
			Enabled: false,
		},
		ID: dnssvctest.DeviceID,
	}

	geoIP := agdtest.NewGeoIP()
	geoIP.OnData = func(_ string, _ netip.Addr) (l *geoip.Location, err error) {
		return nil, nil
	}

	rlMw := ratelimitmw.New(&ratelimitmw.Config{
		Logger:         slogutil.NewDiscardLogger(),
		Messages:       agdtest.NewConstructor(t),
		FilteringGroup: &agd.FilteringGroup{},
		ServerGroup:    &agd.ServerGroup{},
		Server: &agd.Server{
			// Use a DoT server to prevent ratelimiting.
			Protocol: agd.ProtoDoT,
		},
		StructuredErrors: agdtest.NewSDEConfig(true),
		AccessManager:    globalAccess,
		DeviceFinder: &agdtest.DeviceFinder{
			OnFind: func(_ context.Context, _ *dns.Msg, _, _ netip.AddrPort) (r agd.DeviceResult) {
				return &agd.DeviceResultOK{
					Device:  dev,
					Profile: prof,
				}
			},
		},
		ErrColl: agdtest.NewErrorCollector(),
		GeoIP:   geoIP,
		Metrics: ratelimitmw.EmptyMetrics{},
		Limiter: agdtest.NewRateLimit(),
		Protocols: []agd.Protocol{
			agd.ProtoDNS,
		},
		EDEEnabled: true,
	})

	testCases := []struct {
		wantResp assert.BoolAssertionFunc
		name     string
		fqdn     string
		qtype    dnsmsg.RRType
	}{{
		wantResp: assert.True,
		name:     "pass_domain",
		fqdn:     dnssvctest.DomainAllowedFQDN,
		qtype:    dns.TypeA,
	}, {
		wantResp: assert.False,
		name:     "block_domain_any",
		fqdn:     dnssvctest.DomainAllowedFQDN,
		qtype:    dns.TypeANY,
	}, {
		wantResp: assert.False,
		name:     "block_root_ns",
		fqdn:     ".",
		qtype:    dns.TypeNS,
	}, {
		wantResp: assert.False,
		name:     "block_root_any",
		fqdn:     ".",
		qtype:    dns.TypeANY,
	}}

	for _, tc := range testCases {
		t.Run(tc.name, func(t *testing.T) {
			nextCalled := false
			handler := dnsserver.HandlerFunc(func(
				ctx context.Context,
				rw dnsserver.ResponseWriter,
				req *dns.Msg,
			) (err error) {
				nextCalled = true

				return rw.WriteMsg(ctx, req, dnsservertest.NewResp(dns.RcodeSuccess, req))
			})

			rw := dnsserver.NewNonWriterResponseWriter(nil, &net.TCPAddr{
				IP:   net.IP{192, 0, 2, 1},
				Port: 5357,
			})
			req := &dns.Msg{
				Question: []dns.Question{{
					Name:   tc.fqdn,
					Qtype:  tc.qtype,
					Qclass: dns.ClassINET,
				}},
			}

			ctx := testutil.ContextWithTimeout(t, dnssvctest.Timeout)
			err = rlMw.Wrap(handler).ServeDNS(ctx, rw, req)
			require.NoError(t, err)

			tc.wantResp(t, rw.Msg() != nil)
			tc.wantResp(t, nextCalled)
		})
	}
}
