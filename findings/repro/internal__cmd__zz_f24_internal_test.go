package cmd

import (
	"math"
	"testing"
	"time"

	"github.com/AdguardTeam/AdGuardDNS/internal/bindtodevice"
	"github.com/AdguardTeam/AdGuardDNS/internal/dnsserver/ratelimit"
	"github.com/AdguardTeam/golibs/syncutil"
	"github.com/AdguardTeam/golibs/timeutil"
	"github.com/stretchr/testify/assert"
	"github.com/stretchr/testify/require"
)

// TestF24 shows that huge values of the settings that size allocations pass
// validation and then panic where the allocation is made: the per-subnet window
// of the rate limiter (first query of a subnet), the per-connection pipeline
// semaphore (every TCP and DoT connection), and the channels of the interface
// listeners (start-up).
func TestF24(t *testing.T) {
	t.Run("ratelimit_count", func(t *testing.T) {
		o := &rateLimitOptions{
			Count:        math.MaxUint64 - 1,
			Interval:     timeutil.Duration{Duration: time.Second},
			SubnetKeyLen: 24,
		}
		require.NoError(t, o.validate())

		assert.NotPanics(t, func() { _ = ratelimit.NewRequestCounter(o.Count, o.Interval.Duration) })
	})

	t.Run("max_pipeline_count", func(t *testing.T) {
		c := &ratelimitTCPConfig{MaxPipelineCount: math.MaxUint64, Enabled: true}
		require.NoError(t, c.validate())

		assert.NotPanics(t, func() { _ = syncutil.NewChanSemaphore(c.MaxPipelineCount) })
	})

	t.Run("channel_buffer_size", func(t *testing.T) {
		c := &interfaceListenersConfig{
			List:              map[bindtodevice.ID]*interfaceListener{"eth0_53": {Interface: "eth0", Port: 53}},
			ChannelBufferSize: math.MaxInt,
		}
		require.NoError(t, c.validate())

		assert.NotPanics(t, func() { _ = make(chan []byte, c.ChannelBufferSize) })
	})
}
