package forward_test

import (
	"context"
	"encoding/binary"
	"io"
	"net"
	"net/netip"
	"testing"

	"github.com/AdguardTeam/AdGuardDNS/internal/dnsserver"
	"github.com/AdguardTeam/AdGuardDNS/internal/dnsserver/dnsservertest"
	"github.com/AdguardTeam/AdGuardDNS/internal/dnsserver/forward"
	"github.com/AdguardTeam/golibs/testutil"
	"github.com/miekg/dns"
	"github.com/stretchr/testify/require"
)

// TestF44 shows that a main TCP upstream that closes the connection in the
// middle of its reply (the client side sees io.ErrUnexpectedEOF) makes the
// query fail although a healthy fallback is configured: only io.EOF, a close
// before the first byte, counts as a connection failure.
func TestF44(t *testing.T) {
	l, err := net.Listen("tcp", "127.0.0.1:0")
	require.NoError(t, err)
	testutil.CleanupAndRequireSuccess(t, l.Close)

	go func() {
		for {
			conn, accErr := l.Accept()
			if accErr != nil {
				return
			}

			var length uint16
			if binary.Read(conn, binary.BigEndian, &length) == nil {
				_, _ = io.CopyN(io.Discard, conn, int64(length))
				// Announce a 100-byte reply, send a part of it and close.
				_, _ = conn.Write(append([]byte{0, 100}, make([]byte, 30)...))
			}
			_ = conn.Close()
		}
	}()

	srv, _ := dnsservertest.RunDNSServer(t, dnsservertest.NewDefaultHandler())

	handler := forward.NewHandler(&forward.HandlerConfig{
		UpstreamsAddresses: []*forward.UpstreamPlainConfig{{
			Network: forward.NetworkTCP,
			Address: netip.MustParseAddrPort(l.Addr().String()),
			Timeout: testTimeout,
		}},
		FallbackAddresses: []*forward.UpstreamPlainConfig{{
			Network: forward.NetworkAny,
			Address: netip.MustParseAddrPort(srv.LocalUDPAddr().String()),
			Timeout: testTimeout,
		}},
	})

	req := dnsservertest.CreateMessage("example.org.", dns.TypeA)
	rw := dnsserver.NewNonWriterResponseWriter(srv.LocalUDPAddr(), srv.LocalUDPAddr())

	err = handler.ServeDNS(context.Background(), rw, req)
	require.NoError(t, err)

	res := rw.Msg()
	require.NotNil(t, res)
	dnsservertest.RequireResponse(t, req, res, 1, dns.RcodeSuccess, false)
}
