package cmd

import (
	"net/netip"
	"testing"

	"github.com/stretchr/testify/assert"
	"github.com/stretchr/testify/require"
)

// TestF34 shows that a server group with plain-DNS servers only and no tls
// section passes validation ("No TLS settings, which is normal") and then
// crashes start-up in collectSessTicketPaths (builder.initTLSManager).
func TestF34(t *testing.T) {
	grps := serverGroups{{
		DDR:            &ddrConfig{},
		Name:           "plain",
		FilteringGroup: "default",
		Servers: servers{{
			Name:          "default_dns",
			Protocol:      srvProtoDNS,
			BindAddresses: []netip.AddrPort{netip.MustParseAddrPort("127.0.0.1:53")},
		}},
	}}
	require.NoError(t, grps.validate())

	assert.NotPanics(t, func() { _ = grps.collectSessTicketPaths() })
}
