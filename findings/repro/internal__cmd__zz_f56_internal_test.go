package cmd

import (
	"testing"

	"github.com/stretchr/testify/assert"
	"github.com/stretchr/testify/require"
)

// F56 (C20): a non-positive dnsdb.max_size was reported under the name "size",
// a property that the dnsdb section does not have.
func TestF56DNSDBMaxSizeName(t *testing.T) {
	c := &dnsDBConfig{Enabled: true, MaxSize: 0}

	err := c.validate()
	require.Error(t, err)
	assert.Contains(t, err.Error(), "max_size")
}
