package cache_test

import (
	"context"
	"net"
	"net/netip"
	"testing"

	"github.com/AdguardTeam/AdGuardDNS/internal/dnsserver"
	"github.com/AdguardTeam/AdGuardDNS/internal/dnsserver/cache"
	"github.com/AdguardTeam/AdGuardDNS/internal/dnsserver/dnsservertest"
	"github.com/miekg/dns"
	"github.com/stretchr/testify/assert"
	"github.com/stretchr/testify/require"
)

// F66 (C04): the simple cache rebuilt a hit with SetReply and copied only the
// AD, RA and rcode of the stored header: an upstream answer with the AA bit
// set was passed through with AA=1 when fresh and served with AA=0 from the
// cache.  The ECS-aware cache keeps the whole header.
func TestF66CacheKeepsAuthoritative(t *testing.T) {
	const host = "authoritative.example"

	upstream := dnsserver.HandlerFunc(func(
		ctx context.Context,
		rw dnsserver.ResponseWriter,
		req *dns.Msg,
	) (err error) {
		resp := (&dns.Msg{}).SetReply(req)
		resp.Authoritative = true
		resp.RecursionAvailable = true
		resp.Answer = append(resp.Answer, dnsservertest.NewA(host, 300, netip.MustParseAddr("192.0.2.1")))

		return rw.WriteMsg(ctx, req, resp)
	})

	h := cache.NewMiddleware(&cache.MiddlewareConfig{Count: 100}).Wrap(upstream)

	exchange := func() (resp *dns.Msg) {
		req := dnsservertest.NewReq(host, dns.TypeA, dns.ClassINET)
		addr := &net.UDPAddr{IP: net.IP{127, 0, 0, 1}, Port: 53}
		nrw := dnsserver.NewNonWriterResponseWriter(addr, addr)
		require.NoError(t, h.ServeDNS(context.Background(), nrw, req))
		require.NotNil(t, nrw.Msg())

		return nrw.Msg()
	}

	fresh := exchange()
	require.True(t, fresh.Authoritative)

	cached := exchange()
	assert.Equal(t, fresh.Authoritative, cached.Authoritative, "the AA bit of a cached answer differs from the fresh one")
	assert.Equal(t, fresh.RecursionAvailable, cached.RecursionAvailable)
	assert.Equal(t, fresh.Rcode, cached.Rcode)
}
