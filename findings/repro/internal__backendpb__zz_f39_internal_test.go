package backendpb

import (
	"testing"

	"github.com/stretchr/testify/assert"
)

// TestF39 shows that a parental schedule without a weekly range, which the
// backend is free to send, is a nil dereference in the converter instead of a
// conversion error: the panic leaves ProfileStorage.Profiles and ends the
// periodic profile refresh.
func TestF39(t *testing.T) {
	s := &ScheduleSettings{Tmz: "UTC"}
	assert.NotPanics(t, func() {
		_, err := s.toInternal()
		assert.Error(t, err)
	})
}
