package forward_test

import (
	"net/netip"
	"testing"

	"github.com/AdguardTeam/AdGuardDNS/internal/dnsserver/dnsservertest"
	"github.com/AdguardTeam/AdGuardDNS/internal/dnsserver/forward"
	"github.com/AdguardTeam/golibs/testutil"
	"github.com/miekg/dns"
	"github.com/stretchr/testify/require"
)

// F68 (C17, C06): packReq let a query through that is exactly as long as the
// pooled buffer (minus the length prefix for TCP), but dns.Msg.PackBuffer only
// packs in place into a buffer that is at least one byte longer than the
// message; otherwise it returns a new slice, which packReq discarded.  The
// upstream was then sent the previous contents of the pooled buffer, and the
// query was not answered by a healthy upstream.
func TestF68QueryOfExactlyBufferSize(t *testing.T) {
	_, addr := dnsservertest.RunDNSServer(t, dnsservertest.NewDefaultHandler())
	ups := forward.NewUpstreamPlain(&forward.UpstreamPlainConfig{
		Network: forward.NetworkTCP,
		Address: netip.MustParseAddrPort(addr),
	})
	testutil.CleanupAndRequireSuccess(t, ups.Close)

	// The TCP buffer is dns.MaxMsgSize bytes long, two of which are the length
	// prefix.
	const wantLen = dns.MaxMsgSize - 2

	req := dnsservertest.CreateMessage("example.org.", dns.TypeA)
	req.SetEdns0(4096, false)
	local := &dns.EDNS0_LOCAL{Code: dns.EDNS0LOCALSTART}
	opt := req.IsEdns0()
	opt.Option = append(opt.Option, local)
	local.Data = make([]byte, wantLen-req.Len())
	require.Equal(t, wantLen, req.Len())

	// Use the pooled buffer first, so that it has previous contents.
	small := dnsservertest.CreateMessage("other.example.", dns.TypeA)
	_, _, err := ups.Exchange(testutil.ContextWithTimeout(t, testTimeout), small)
	require.NoError(t, err)

	res, _, err := ups.Exchange(testutil.ContextWithTimeout(t, testTimeout), req)
	require.NoError(t, err)
	require.NotNil(t, res)
	require.Equal(t, req.Id, res.Id)
	require.Equal(t, "example.org.", res.Question[0].Name)
}
