package filterstorage_test

import (
	"context"
	"github.com/AdguardTeam/AdGuardDNS/internal/agdtest"
	"net/http"
	"net/http/httptest"
	"net/url"
	"os"
	"path/filepath"
	"sync/atomic"
	"testing"

	"github.com/AdguardTeam/AdGuardDNS/internal/filter"
	"github.com/AdguardTeam/AdGuardDNS/internal/filter/filterstorage"
	"github.com/AdguardTeam/AdGuardDNS/internal/filter/internal/filtertest"
	"github.com/AdguardTeam/golibs/testutil"
	"github.com/stretchr/testify/require"
)

// F28: a rule-list index that cannot be decoded has already replaced
// filters.json; the next start loads it and the storage does not come up.
func TestF28_UndecodableIndexCommitted(t *testing.T) {
	_, ruleListURL := filtertest.PrepareRefreshable(t, nil, filtertest.RuleBlockStr+"\n", http.StatusOK)
	good := string(filtertest.NewRuleListIndex(ruleListURL.String()))
	var bad atomic.Bool
	srv := httptest.NewServer(http.HandlerFunc(func(w http.ResponseWriter, _ *http.Request) {
		if bad.Load() {
			_, _ = w.Write([]byte("<html>maintenance</html>"))
			return
		}
		_, _ = w.Write([]byte(good))
	}))
	t.Cleanup(srv.Close)
	idxURL, err := url.Parse(srv.URL)
	require.NoError(t, err)

	rl := newConfigRuleLists(idxURL)
	rl.IndexStaleness = 1
	c := newDisabledConfig(t, rl)
	dir := c.CacheDir
	c.ErrColl = &agdtest.ErrorCollector{OnCollect: func(_ context.Context, _ error) {}}
	s, err := filterstorage.New(c)
	require.NoError(t, err)
	require.NoError(t, s.RefreshInitial(testutil.ContextWithTimeout(t, filtertest.Timeout)))
	require.True(t, s.HasListID(filtertest.RuleListID1))

	bad.Store(true)
	err = s.Refresh(testutil.ContextWithTimeout(t, filtertest.Timeout))
	require.Error(t, err)
	t.Logf("periodic refresh: %v", err)
	require.True(t, s.HasListID(filtertest.RuleListID1))

	b, err := os.ReadFile(filepath.Join(dir, "filters.json"))
	require.NoError(t, err)
	if string(b) != good {
		t.Errorf("the rejected index replaced filters.json: %q", b)
	}

	c2 := newDisabledConfig(t, rl)
	c2.CacheDir = dir
	c2.ErrColl = c.ErrColl
	s2, err := filterstorage.New(c2)
	require.NoError(t, err)
	if err = s2.RefreshInitial(testutil.ContextWithTimeout(t, filtertest.Timeout)); err != nil {
		t.Errorf("restart fails: %v", err)
	}
	_ = filter.IDNone
}
