package cmd

import "testing"

func TestProbeValidate(t *testing.T) {
	t.Logf("uint 0: %v", validatePositive("count", uint(0)))
	t.Logf("int -5: %v", validatePositive("x", -5))
	o := &rateLimitOptions{Count: 0, SubnetKeyLen: 99}
	o.Interval.Duration = 1
	t.Logf("opts: %v", o.validate())
	c := &cacheConfig{Type: cacheTypeECS, Size: 10, ECSSize: 0, TTLOverride: &ttlOverride{}}
	c.TTLOverride.Min.Duration = 1
	t.Logf("cache: %v", c.validate())
}
