package dnsserver

import (
	"bytes"
	"context"
	"encoding/binary"
	"io"
	"testing"
	"time"

	"github.com/miekg/dns"
	"github.com/quic-go/quic-go"
)

type fakeStream struct {
	quic.Stream
	r io.Reader
}

func (s *fakeStream) Read(p []byte) (int, error)        { return s.r.Read(p) }
func (s *fakeStream) SetReadDeadline(time.Time) error { return nil }

func TestProbeQUICStale(t *testing.T) {
	s := NewServerQUIC(ConfigQUIC{})
	// First message: a normal query from "victim".
	q1 := new(dns.Msg)
	q1.SetQuestion("secret-victim-name.example.", dns.TypeA)
	b1, _ := q1.Pack()
	buf1 := make([]byte, 2+len(b1))
	binary.BigEndian.PutUint16(buf1, uint16(len(b1)))
	copy(buf1[2:], b1)
	m1, err := s.readQUICMsg(context.Background(), &fakeStream{r: bytes.NewReader(buf1)})
	t.Logf("m1 q=%v err=%v", m1.Question, err)

	// Second message: header only (12 bytes) declaring QDCOUNT=1, 14 bytes on the wire.
	hdr := make([]byte, 12)
	binary.BigEndian.PutUint16(hdr[0:], 0x4242)
	binary.BigEndian.PutUint16(hdr[2:], 0x0100)
	binary.BigEndian.PutUint16(hdr[4:], 1)
	buf2 := make([]byte, 14)
	binary.BigEndian.PutUint16(buf2, 12)
	copy(buf2[2:], hdr)
	// Try a few times because sync.Pool may or may not hand the same buffer back.
	for i := 0; i < 5; i++ {
		m2, err2 := s.readQUICMsg(context.Background(), &fakeStream{r: bytes.NewReader(buf2)})
		if m2 != nil {
			t.Logf("try %d: m2 id=%x q=%v err=%v", i, m2.Id, m2.Question, err2)
		} else {
			t.Logf("try %d: m2=nil err=%v", i, err2)
		}
	}
}

func TestProbeNormalizeOPT(t *testing.T) {
	req := new(dns.Msg)
	req.SetQuestion("example.org.", dns.TypeA)
	req.SetEdns0(1232, false)
	resp := new(dns.Msg)
	resp.SetReply(req)
	normalize(NetworkUDP, ProtoDNS, req, resp, 4096)
	o := resp.IsEdns0()
	t.Logf("resp opt udp size=%d version=%d", o.UDPSize(), o.Version())
}
