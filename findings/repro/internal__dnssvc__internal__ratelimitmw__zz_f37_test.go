package ratelimitmw_test

import (
	"context"
	"net"
	"net/netip"
	"testing"
	"time"

	"github.com/AdguardTeam/AdGuardDNS/internal/access"
	"github.com/AdguardTeam/AdGuardDNS/internal/agd"
	"github.com/AdguardTeam/AdGuardDNS/internal/agdtest"
	"github.com/AdguardTeam/AdGuardDNS/internal/dnsmsg"
	"github.com/AdguardTeam/AdGuardDNS/internal/dnsserver"
	"github.com/AdguardTeam/AdGuardDNS/internal/dnsserver/dnsservertest"
	"github.com/AdguardTeam/AdGuardDNS/internal/dnsserver/ratelimit"
	"github.com/AdguardTeam/AdGuardDNS/internal/dnssvc/internal/dnssvctest"
	"github.com/AdguardTeam/AdGuardDNS/internal/dnssvc/internal/ratelimitmw"
	"github.com/AdguardTeam/AdGuardDNS/internal/geoip"
	"github.com/AdguardTeam/golibs/logutil/slogutil"
	"github.com/AdguardTeam/golibs/testutil"
	"github.com/miekg/dns"
	"github.com/stretchr/testify/require"
)

// TestF37 shows that with refuse_any configured an ANY query of a plain-DNS
// client is refused on the global path but answered when the client falls
// under a profile's own rate limit.
func TestF37(t *testing.T) {
	limiter := ratelimit.NewBackoff(&ratelimit.BackoffConfig{
		Allowlist:            ratelimit.NewDynamicAllowlist(nil, nil),
		ResponseSizeEstimate: 1000,
		Duration:             time.Minute,
		Period:               time.Minute,
		IPv4Count:            100,
		IPv4Interval:         time.Second,
		IPv4SubnetKeyLen:     24,
		IPv6Count:            100,
		IPv6Interval:         time.Second,
		IPv6SubnetKeyLen:     48,
		Count:                100,
		RefuseANY:            true,
	})

	prof := &agd.Profile{
		ID:           "prof1234",
		Access:       access.EmptyProfile{},
		BlockingMode: &dnsmsg.BlockingModeNullIP{},
		Ratelimiter:  agd.NewDefaultRatelimiter(&agd.RatelimitConfig{RPS: 100, Enabled: true}, 1000),
	}
	dev := &agd.Device{ID: "dev1234"}

	geoIP := agdtest.NewGeoIP()
	geoIP.OnData = func(_ string, _ netip.Addr) (l *geoip.Location, err error) { return nil, nil }

	accessMgr, err := access.NewGlobal(nil, nil)
	require.NoError(t, err)

	mk := func(withProfile bool) dnsserver.Handler {
		mw := ratelimitmw.New(&ratelimitmw.Config{
			Logger: slogutil.NewDiscardLogger(), Messages: agdtest.NewConstructor(t),
			FilteringGroup: &agd.FilteringGroup{}, ServerGroup: &agd.ServerGroup{ProfilesEnabled: true},
			Server:           &agd.Server{Protocol: agd.ProtoDNS},
			StructuredErrors: agdtest.NewSDEConfig(true), AccessManager: accessMgr,
			DeviceFinder: &agdtest.DeviceFinder{
				OnFind: func(_ context.Context, _ *dns.Msg, _, _ netip.AddrPort) (r agd.DeviceResult) {
					if !withProfile {
						return nil
					}
					return &agd.DeviceResultOK{Device: dev, Profile: prof}
				},
			},
			ErrColl: agdtest.NewErrorCollector(), GeoIP: geoIP, Metrics: ratelimitmw.EmptyMetrics{},
			Limiter: limiter, Protocols: []agd.Protocol{agd.ProtoDNS}, EDEEnabled: true,
		})
		return mw.Wrap(dnsserver.HandlerFunc(
			func(ctx context.Context, rw dnsserver.ResponseWriter, req *dns.Msg) (err error) {
				return rw.WriteMsg(ctx, req, dnsservertest.NewResp(dns.RcodeSuccess, req))
			},
		))
	}

	ask := func(h dnsserver.Handler) (answered bool) {
		rw := dnsserver.NewNonWriterResponseWriter(
			&net.UDPAddr{IP: net.IPv4(127, 0, 0, 1), Port: 53},
			&net.UDPAddr{IP: net.IPv4(192, 0, 2, 1), Port: 5357},
		)
		req := dnsservertest.NewReq(dnssvctest.DomainAllowedFQDN, dns.TypeANY, dns.ClassINET)
		require.NoError(t, h.ServeDNS(testutil.ContextWithTimeout(t, dnssvctest.Timeout), rw, req))
		return rw.Msg() != nil
	}

	require.False(t, ask(mk(false)), "anonymous client: ANY must be refused")
	if ask(mk(true)) {
		t.Errorf("refuse_any is configured, but the ANY query of a client under its profile's own limit was answered")
	}
}
