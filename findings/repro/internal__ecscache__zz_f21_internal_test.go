package ecscache

import (
	"net"
	"testing"
	"time"

	"github.com/AdguardTeam/AdGuardDNS/internal/agdtest"
	"github.com/miekg/dns"
	"github.com/stretchr/testify/assert"
	"github.com/stretchr/testify/require"
)

// TestF21 shows that a response with an OPT record that carries an Extended
// DNS Error, which the cache keeps, comes back from the cache with the DO bit,
// the EDNS version, and the extended response code of the OPT overwritten by
// the remaining TTL.
func TestF21(t *testing.T) {
	req := (&dns.Msg{}).SetQuestion("example.com.", dns.TypeA)
	req.SetEdns0(1232, true)

	resp := (&dns.Msg{}).SetReply(req)
	resp.Answer = []dns.RR{&dns.A{
		Hdr: dns.RR_Header{Name: "example.com.", Rrtype: dns.TypeA, Class: dns.ClassINET, Ttl: 70000},
		A:   net.IP{192, 0, 2, 1},
	}}
	resp.SetEdns0(1232, true)
	opt := resp.IsEdns0()
	opt.Option = append(opt.Option, &dns.EDNS0_EDE{InfoCode: dns.ExtendedErrorCodeStaleAnswer})

	require.True(t, opt.Do())
	require.Equal(t, uint8(0), opt.Version())

	// What the middleware stores after the hop-to-hop clean-up: the OPT record
	// stays, because it has an EDE.
	rmHopToHopData(resp, dns.TypeA, true)
	require.NotNil(t, resp.IsEdns0())

	item := toCacheItem(resp, "example.com")
	item.when = time.Now()

	got := fromCacheItem(item, agdtest.NewCloner(), req, true)

	gotOpt := got.IsEdns0()
	require.NotNil(t, gotOpt)
	assert.True(t, gotOpt.Do(), "do bit")
	assert.Equal(t, uint8(0), gotOpt.Version(), "edns version")
	assert.Equal(t, 0, gotOpt.ExtendedRcode(), "extended rcode")
}
