package connlimiter

import (
	"log/slog"
	"testing"

	"github.com/AdguardTeam/AdGuardDNS/internal/dnsserver"
)

// F13: Accept on a closed listener takes a counter slot and never returns it.
// Uses fakeLsnr from zz_probe_internal_test.go of the same package.
func TestProbeClosedLeak(t *testing.T) {
	lim, _ := New(&Config{Logger: slog.Default(), Stop: 2, Resume: 1})
	fa := &fakeLsnr{}
	la := lim.Limit(fa, &dnsserver.ServerInfo{Name: "a", Addr: "a", Proto: dnsserver.ProtoDoT})
	_ = la.Close()
	_, err := la.Accept()
	l := la.(*limitListener)
	t.Logf("accept on closed: err=%v; counter current=%d (no connection is open)", err, l.counter.current)
	_, err = la.Accept()
	t.Logf("again: err=%v; current=%d isAccepting=%v", err, l.counter.current, l.counter.isAccepting)
}
