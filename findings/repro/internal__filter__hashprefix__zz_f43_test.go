package hashprefix_test

import (
	"context"
	"testing"

	"github.com/AdguardTeam/AdGuardDNS/internal/filter/hashprefix"
	"github.com/AdguardTeam/AdGuardDNS/internal/filter/internal/filtertest"
	"github.com/stretchr/testify/require"
)

// TestF43 shows that a legacy eight-character prefix whose last four
// characters are not hexadecimal is answered like its first four characters
// instead of being refused as malformed.
func TestF43(t *testing.T) {
	strg, err := hashprefix.NewStorage(filtertest.HostAdultContent + "\n")
	require.NoError(t, err)

	m := hashprefix.NewMatcher(map[string]*hashprefix.Storage{".pc.dns.example": strg})
	for _, pref := range []string{"abcdzzzz", "abcd----"} {
		_, matched, err := m.MatchByPrefix(context.Background(), pref+".pc.dns.example")
		t.Logf("%s: matched=%v err=%v", pref, matched, err)
		if err == nil {
			t.Errorf("the malformed prefix %q is not refused", pref)
		}
	}
}
