package forward

import (
	"bytes"
	"encoding/binary"
	"net"
	"testing"
	"time"

	"github.com/miekg/dns"
)

type fakeConn struct {
	net.Conn
	r *bytes.Reader
}

func (c *fakeConn) Read(p []byte) (int, error)         { return c.r.Read(p) }
func (c *fakeConn) SetDeadline(time.Time) error      { return nil }

func TestProbeUpstreamStale(t *testing.T) {
	u := NewUpstreamPlain(&UpstreamPlainConfig{})
	buf := make([]byte, udpBufSize)
	// Simulate an earlier reply in the same buffer.
	q1 := new(dns.Msg)
	q1.SetQuestion("other-client.example.", dns.TypeA)
	r1 := new(dns.Msg)
	r1.SetReply(q1)
	rr, _ := dns.NewRR("other-client.example. 60 IN A 6.6.6.6")
	r1.Answer = append(r1.Answer, rr)
	b1, _ := r1.Pack()
	m, err := u.readMsg(NetworkUDP, &fakeConn{r: bytes.NewReader(b1)}, buf)
	t.Logf("first: %v err=%v", m.Answer, err)
	// Now a truncated reply: header says QD=1 AN=1 but only 17 bytes arrive.
	short := make([]byte, 17)
	copy(short, b1[:17])
	binary.BigEndian.PutUint16(short[0:], 0x7777)
	m2, err2 := u.readMsg(NetworkUDP, &fakeConn{r: bytes.NewReader(short)}, buf)
	if m2 != nil {
		t.Logf("second: id=%x q=%v ans=%v err=%v", m2.Id, m2.Question, m2.Answer, err2)
	} else {
		t.Logf("second: nil err=%v", err2)
	}
	fresh := make([]byte, udpBufSize)
	m3, err3 := u.readMsg(NetworkUDP, &fakeConn{r: bytes.NewReader(short)}, fresh)
	t.Logf("fresh buffer: m=%v err=%v", m3, err3)
}
