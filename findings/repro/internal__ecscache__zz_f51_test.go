package ecscache_test

import (
	"context"
	"fmt"
	"net"
	"net/netip"
	"testing"

	"github.com/AdguardTeam/AdGuardDNS/internal/agd"
	"github.com/AdguardTeam/AdGuardDNS/internal/agdcache"
	"github.com/AdguardTeam/AdGuardDNS/internal/agdtest"
	"github.com/AdguardTeam/AdGuardDNS/internal/dnsmsg"
	"github.com/AdguardTeam/AdGuardDNS/internal/dnsserver"
	"github.com/AdguardTeam/AdGuardDNS/internal/dnsserver/dnsservertest"
	"github.com/AdguardTeam/AdGuardDNS/internal/ecscache"
	"github.com/AdguardTeam/AdGuardDNS/internal/geoip"
	"github.com/AdguardTeam/golibs/logutil/slogutil"
	"github.com/AdguardTeam/golibs/netutil"
	"github.com/miekg/dns"
	"github.com/stretchr/testify/assert"
	"github.com/stretchr/testify/require"
)

// Values for the location-fallback test.
const (
	zlFQDN = "geo.zl.example."
	zlHost = "geo.zl.example"
	zlTTL  = 600

	zlCtry = geoip.CountryAD
)

var (
	// zlCtrySubnet is the subnet that the GeoIP database has for zlCtry.
	zlCtrySubnet = netip.MustParsePrefix("1.2.0.0/16")

	// zlGenericAddr is what the upstream answers when no client subnet is
	// forwarded; zlGeoAddr is what it answers for clients in zlCtrySubnet.
	zlGenericAddr = netip.MustParseAddr("192.0.2.1")
	zlGeoAddr     = netip.MustParseAddr("198.51.100.16")

	// zlRemoteIP is the address of all clients; GeoIP locates it in zlCtry.
	zlRemoteIP = netip.MustParseAddr("1.2.3.4")

)

// zlStack is the ECS-aware cache on top of an upstream whose answer is a
// function of the question and the forwarded subnet.
type zlStack struct {
	handler dnsserver.Handler
	numUps  int
}

// newZLStack returns a new stack with an empty cache.
func newZLStack(t *testing.T) (s *zlStack) {
	t.Helper()

	s = &zlStack{}

	upstream := dnsserver.HandlerFunc(func(
		ctx context.Context,
		rw dnsserver.ResponseWriter,
		req *dns.Msg,
	) (err error) {
		s.numUps++

		subnet, _, err := dnsmsg.ECSFromMsg(req)
		if err != nil {
			return fmt.Errorf("upstream: %w", err)
		}

		// An authoritative server that supports ECS: the generic answer with
		// scope zero when the forwarded subnet is absent or empty, and the
		// answer tailored for the forwarded subnet otherwise.
		addr, scope := zlGenericAddr, uint8(0)
		if subnet.IsValid() && subnet.Bits() > 0 {
			if subnet != zlCtrySubnet {
				return fmt.Errorf("upstream: unexpected subnet %s", subnet)
			}

			addr, scope = zlGeoAddr, uint8(subnet.Bits())
		}

		fam := netutil.AddrFamilyIPv4
		ecsIP := net.IP(netutil.IPv4Zero())
		mask := uint8(0)
		if subnet.IsValid() {
			ecsIP, mask = subnet.Addr().AsSlice(), uint8(subnet.Bits())
		}

		resp := dnsservertest.NewResp(
			dns.RcodeSuccess,
			req,
			dnsservertest.SectionAnswer{dnsservertest.NewA(zlFQDN, zlTTL, addr)},
			dnsservertest.SectionExtra{dnsservertest.NewECSExtra(ecsIP, uint16(fam), mask, scope)},
		)

		return rw.WriteMsg(ctx, req, resp)
	})

	// Behave like the real GeoIP database: the country subnet for known
	// countries and the zero prefix otherwise.
	geoIP := agdtest.NewGeoIP()
	geoIP.OnSubnetByLocation = func(
		l *geoip.Location,
		fam netutil.AddrFamily,
	) (n netip.Prefix, err error) {
		if l.Country == zlCtry && fam == netutil.AddrFamilyIPv4 {
			return zlCtrySubnet, nil
		}

		return netutil.ZeroPrefix(fam), nil
	}

	mw := ecscache.NewMiddleware(&ecscache.MiddlewareConfig{
		Cloner:       agdtest.NewCloner(),
		Logger:       slogutil.NewDiscardLogger(),
		CacheManager: agdcache.EmptyManager{},
		GeoIP:        geoIP,
		NoECSCount:   100,
		ECSCount:     100,
		MinTTL:       0,
		OverrideTTL:  false,
	})

	s.handler = mw.Wrap(upstream)

	return s
}

// exchange sends an A request for zlFQDN through the stack, from a client that
// GeoIP either locates in zlCtry or does not locate at all.
func (s *zlStack) exchange(t *testing.T, located bool) (ans []string) {
	t.Helper()

	req := dnsservertest.NewReq(zlFQDN, dns.TypeA, dns.ClassINET)
	ri := &agd.RequestInfo{
		Host:     zlHost,
		RemoteIP: zlRemoteIP,
		QType:    dns.TypeA,
		QClass:   dns.ClassINET,
	}
	if located {
		ri.Location = &geoip.Location{Country: zlCtry}
	}

	addr := &net.UDPAddr{IP: zlRemoteIP.AsSlice(), Port: 53}
	nrw := dnsserver.NewNonWriterResponseWriter(addr, addr)

	ctx := agd.ContextWithRequestInfo(context.Background(), ri)
	err := s.handler.ServeDNS(ctx, nrw, req)
	require.NoError(t, err)

	resp := nrw.Msg()
	require.NotNil(t, resp)
	require.Equal(t, dns.RcodeSuccess, resp.Rcode)

	for _, rr := range resp.Answer {
		a, ok := rr.(*dns.A)
		require.True(t, ok)

		ans = append(ans, a.Hdr.Name+" A "+a.A.String())
	}

	return ans
}

// F51 (C04): a client that GeoIP cannot locate is forwarded with a zero-length
// client subnet, which an ECS-aware upstream must answer with its generic
// answer and scope zero; that answer was stored in the cache for names without
// ECS support under the key that every located client of the family looks up
// first, so located clients got the generic answer instead of theirs.
func TestF51UnlocatedClientDoesNotPoisonCache(t *testing.T) {
	// The reference: a client from zlCtry and an empty cache.
	wantGeo := newZLStack(t).exchange(t, true)
	require.Equal(t, []string{zlFQDN + " A " + zlGeoAddr.String()}, wantGeo)

	s := newZLStack(t)

	// A client without a known location.
	got := s.exchange(t, false)
	require.Equal(t, []string{zlFQDN + " A " + zlGenericAddr.String()}, got)
	require.Equal(t, 1, s.numUps)

	// A client from zlCtry: cached or not, the answer is the reference.
	got = s.exchange(t, true)
	assert.Equal(t, wantGeo, got, "cached answer differs from a fresh one for the same location")

	// Another client without a known location is served from the cache.
	numUps := s.numUps
	got = s.exchange(t, false)
	assert.Equal(t, []string{zlFQDN + " A " + zlGenericAddr.String()}, got)
	assert.Equal(t, numUps, s.numUps)
}
