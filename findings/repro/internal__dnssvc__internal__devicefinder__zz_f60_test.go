package devicefinder_test

import (
	"context"
	"net/url"
	"path"
	"testing"

	"github.com/AdguardTeam/AdGuardDNS/internal/agd"
	"github.com/AdguardTeam/AdGuardDNS/internal/agdtest"
	"github.com/AdguardTeam/AdGuardDNS/internal/dnsserver"
	"github.com/AdguardTeam/AdGuardDNS/internal/dnssvc/internal/devicefinder"
	"github.com/AdguardTeam/AdGuardDNS/internal/dnssvc/internal/dnssvctest"
	"github.com/AdguardTeam/golibs/logutil/slogutil"
	"github.com/AdguardTeam/golibs/testutil"
	"github.com/stretchr/testify/assert"
	"github.com/stretchr/testify/require"
)

// F60 (C03): the device ID of a DoH path (and of a TLS server name) was
// lower-cased with strings.ToLower before it was validated.  Unicode folding
// turns U+212A KELVIN SIGN into the ASCII letter k, so a request that does not
// carry a device's identifier was recognised as that device.
func TestF60KelvinSignIsNotK(t *testing.T) {
	const realID = "devk1234"

	asked := ""
	profDB := agdtest.NewProfileDB()
	profDB.OnProfileByDeviceID = func(
		_ context.Context,
		devID agd.DeviceID,
	) (p *agd.Profile, d *agd.Device, err error) {
		asked = string(devID)

		return profNormal, devNormal, nil
	}

	df := devicefinder.NewDefault(&devicefinder.Config{
		Logger:        slogutil.NewDiscardLogger(),
		ProfileDB:     profDB,
		HumanIDParser: agd.NewHumanIDParser(),
		Server:        srvDoH,
		DeviceDomains: []string{},
	})

	// "dev" + KELVIN SIGN + "1234" is not the identifier "devk1234".
	ctx := testutil.ContextWithTimeout(t, dnssvctest.Timeout)
	ctx = dnsserver.ContextWithRequestInfo(ctx, &dnsserver.RequestInfo{
		TLSServerName: dnssvctest.DomainForDevices,
		URL:           &url.URL{Path: path.Join(dnsserver.PathDoH, "devK1234")},
	})

	got := df.Find(ctx, reqNormal, dnssvctest.ClientAddrPort, dnssvctest.ServerAddrPort)
	require.NotNil(t, got)

	_, isErr := got.(*agd.DeviceResultError)
	assert.True(t, isErr, "got %T", got)
	assert.NotEqual(t, realID, asked, "the profile database must not be asked about another identifier")
}
